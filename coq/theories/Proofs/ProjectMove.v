(* Proofs/ProjectMove.v -- one designated re-export: module R imports x from module D as n and lists n in its
   __all__; what Documentable.reparent does to the registry, and the invariant of the machine before and after
   that move (C07_moved_once). *)
From Coq Require Import ZArith NArith List Bool Lia Permutation.
From PydoctorVerif Require Import Base.Sexp Model.Project Spec.ProjectStatic Proofs.ProjectBase Proofs.ProjectRegistry
     Proofs.ProjectKeep Proofs.ProjectAlias.
Import ListNotations.
Local Open Scope N_scope.

(* ---------------------------------------------------------------- folds of deletions / insertions *)
Lemma full_name_f_objs f s s' o : objs s' = objs s -> full_name_f f s' o = full_name_f f s o.
Proof.
  intros H. revert o. induction f as [|f IH]; intros o; cbn [full_name_f]; [reflexivity|].
  rewrite H. destruct (objs s o) as [ob|]; [|reflexivity]. destruct (o_parent ob); [rewrite IH|]; reflexivity.
Qed.
Lemma full_name_objs s s' o : objs s' = objs s -> dfuel s' = dfuel s -> full_name s' o = full_name s o.
Proof. intros H Hd. unfold full_name. rewrite Hd. apply full_name_f_objs. exact H. Qed.

Lemma set_all_id s : set_all s (allobjs s) = s.
Proof. destruct s; reflexivity. Qed.

Lemma unregister_gen l : forall s a,
  fold_left (fun s0 o => set_all s0 (pdel (full_name s0 o) (allobjs s0))) l (set_all s a) =
  set_all s (fold_left (fun a o => pdel (full_name s o) a) l a).
Proof.
  induction l as [|o l IH]; intros s a; cbn [fold_left]; [reflexivity|].
  change (set_all (set_all s a) (pdel (full_name (set_all s a) o) (allobjs (set_all s a))))
    with (set_all s (pdel (full_name (set_all s a) o) a)).
  rewrite (full_name_objs (set_all s a) s o) by reflexivity. apply IH.
Qed.
Lemma unregister_spec l s :
  unregister s l = set_all s (fold_left (fun a o => pdel (full_name s o) a) l (allobjs s)).
Proof. unfold unregister. rewrite <- (set_all_id s) at 1. apply unregister_gen. Qed.

Lemma register_gen l : forall s a,
  fold_left (fun s0 o => set_all s0 (pset (full_name s0 o) o (allobjs s0))) l (set_all s a) =
  set_all s (fold_left (fun a o => pset (full_name s o) o a) l a).
Proof.
  induction l as [|o l IH]; intros s a; cbn [fold_left]; [reflexivity|].
  change (set_all (set_all s a) (pset (full_name (set_all s a) o) o (allobjs (set_all s a))))
    with (set_all s (pset (full_name (set_all s a) o) o a)).
  rewrite (full_name_objs (set_all s a) s o) by reflexivity. apply IH.
Qed.
Lemma pset_same k v l : pget k l = Some v -> pset k v l = l.
Proof.
  induction l as [|[k' v'] l IH]; cbn [pset pget]; [discriminate|].
  destruct (path_eqb k' k) eqn:E; [|intros H; rewrite (IH H); reflexivity].
  intros H. inversion H; subst v'. apply path_eqb_eq in E. subst k'. reflexivity.
Qed.

Lemma register_spec l s :
  register s l = set_all s (fold_left (fun a o => pset (full_name s o) o a) l (allobjs s)).
Proof. unfold register. rewrite <- (set_all_id s) at 1. apply register_gen. Qed.

(* deleting a list of keys / inserting a list of bindings with distinct keys *)
Lemma fold_pdel_spec ks : forall a k,
  NoDup (map fst a) ->
  NoDup (map fst (fold_left (fun a k' => pdel k' a) ks a)) /\
  (In k ks -> pget k (fold_left (fun a k' => pdel k' a) ks a) = None) /\
  (~ In k ks -> pget k (fold_left (fun a k' => pdel k' a) ks a) = pget k a).
Proof.
  induction ks as [|k0 ks IH]; intros a k Hnd; cbn [fold_left In].
  - split; [exact Hnd|]. split; [tauto|reflexivity].
  - destruct (IH (pdel k0 a) k (pdel_keys_nodup k0 a Hnd)) as (N1 & A & B). split; [exact N1|]. split.
    + intros [->|Hin]; [|apply A; exact Hin].
      destruct (in_dec (list_eq_dec N.eq_dec) k ks) as [Hin|Hni]; [apply A; exact Hin|].
      rewrite (B Hni). apply pget_pdel_same. exact Hnd.
    + intros Hni. rewrite B by tauto. apply pget_pdel_other. intros E. apply Hni. left. congruence.
Qed.

Lemma fold_pset_spec (l : list (path * oid)) : forall a,
  NoDup (map fst a) -> NoDup (map fst l) ->
  NoDup (map fst (fold_left (fun a ko => pset (fst ko) (snd ko) a) l a)) /\
  (forall k o, In (k, o) l -> pget k (fold_left (fun a ko => pset (fst ko) (snd ko) a) l a) = Some o) /\
  (forall k, ~ In k (map fst l) -> pget k (fold_left (fun a ko => pset (fst ko) (snd ko) a) l a) = pget k a).
Proof.
  induction l as [|[k0 o0] l IH]; intros a Hnd Hl; cbn [fold_left map fst In].
  - split; [exact Hnd|]. split; [intros k o []|reflexivity].
  - inversion Hl as [|? ? Hni Hl']; subst.
    destruct (IH (pset k0 o0 a) (pset_keys_nodup k0 o0 a Hnd) Hl') as (N1 & A & B). split; [exact N1|]. split.
    + intros k o [E|Hin]; [|apply A; exact Hin]. inversion E; subst. cbn [fst snd]. rewrite (B k Hni). apply pget_pset_same.
    + intros k Hk. cbn [fst snd]. rewrite B by tauto. apply pget_pset_other. intros E. apply Hk. left. congruence.
Qed.

Lemma fold_left_map {X Y Z} (f : X -> Z -> X) (g : Y -> Z) l : forall a,
  fold_left (fun a y => f a (g y)) l a = fold_left f (map g l) a.
Proof. induction l as [|y l IH]; intros a; cbn [fold_left map]; [reflexivity|apply IH]. Qed.

Lemma NoDup_map_in {X Y} (f : X -> Y) l :
  (forall a b, In a l -> In b l -> f a = f b -> a = b) -> NoDup l -> NoDup (map f l).
Proof.
  induction l as [|x l IH]; intros Hinj Hnd; cbn [map]; [constructor|].
  inversion Hnd as [|? ? Hni Hnd']; subst. constructor.
  - intros Hin. apply in_map_iff in Hin. destruct Hin as (y & E & Hy).
    assert (y = x) by (apply Hinj; [right; exact Hy|left; reflexivity|exact E]). subst y. contradiction.
  - apply IH; [|exact Hnd']. intros a b Ha Hb. apply Hinj; right; assumption.
Qed.

Lemma In_nget {V} k (v : V) l : NoDup (map fst l) -> In (k, v) l -> nget k l = Some v.
Proof.
  unfold nget. induction l as [|[k' v'] l IH]; cbn [map fst In aget]; [tauto|]. intros Hnd [E|Hin].
  - inversion E; subst. rewrite N.eqb_refl. reflexivity.
  - inversion Hnd as [|? ? Hni Hnd']; subst. destruct (N.eqb_spec k' k) as [->|Hne]; [|apply IH; assumption].
    exfalso. apply Hni. apply in_map_iff. exists (k, v). auto.
Qed.

(* full names are the expected qualified names as soon as names and parents are the expected ones along the chain *)
Lemma full_name_expected p nm par (C : oid -> Prop) s :
  dfuel s = depth_fuel p ->
  (forall o, C o -> exists ob, objs s o = Some ob /\ o_name ob = nm o /\ o_parent ob = par o) ->
  (forall o q, C o -> par o = Some q -> C q) ->
  forall o, C o -> full_name s o = key p nm par o.
Proof.
  intros Hf Hst Hcl. unfold full_name, key. rewrite Hf. generalize (depth_fuel p) as f.
  induction f as [|f IH]; intros o Ho; cbn [full_name_f qname_f]; [reflexivity|].
  destruct (Hst o Ho) as (ob & Eo & Hn & Hp). rewrite Eo, Hn, Hp.
  destruct (par o) as [q|] eqn:Eq; [|reflexivity]. rewrite (IH q (Hcl o q Ho Eq)). reflexivity.
Qed.

Section Move.
  Variable p : project.
  Variables (R D ix xname n : N).
  Notation x := (D, ix, 0).
  Notation Rm := (R, 0, 0).
  Notation Dm := (D, 0, 0).

  (* expected name and parent after the move: x is called n and lives in module R *)
  Definition nm1 (o : oid) : N := if oid_eqb o x then n else sname p o.
  Definition par1 (o : oid) : option oid := if oid_eqb o x then Some Rm else sparent p o.

  Notation nm0 := (sname p).
  Notation par0 := (sparent p).
  Notation key0 := (key p nm0 par0).
  Notation key1 := (key p nm1 par1).

  Hypothesis H0 : keys_distinct p.
  Hypothesis H1 : forall o o', sobj p o <> None -> sobj p o' <> None -> key1 o = key1 o' -> o = o'.
  Hypothesis HRD : R <> D.
  Hypothesis Hix : ix <> 0.
  Hypothesis Hxdom : sobj p x <> None.
  Hypothesis Hxname : sname p x = xname.

  Definition sub (o : oid) : Prop := fst (fst o) = D /\ snd (fst o) = ix.

  Lemma sparent_stmt0 m i : i <> 0 -> sobj p (m, i, 0) <> None -> sparent p (m, i, 0) = Some (m, 0, 0).
  Proof.
    intros Hi Hd. unfold sparent. unfold sobj in *. apply N.eqb_neq in Hi. rewrite Hi in *.
    destruct (stmt_at p m i) as [st|]; [|congruence]. destruct st; cbn in Hd |- *; congruence.
  Qed.

  Lemma sparent_x : par0 x = Some Dm.
  Proof. apply sparent_stmt0; assumption. Qed.

  Lemma sub_dom o : sobj p o <> None -> sub o -> o = x \/ par0 o = Some x.
  Proof.
    destruct o as [[m i] j]. unfold sub. cbn [fst snd]. intros Hd [-> ->].
    destruct (N.eq_dec j 0) as [->|Hj]; [left; reflexivity|right].
    unfold sparent. unfold sobj in *. apply N.eqb_neq in Hix. rewrite Hix in *.
    destruct (stmt_at p D ix) as [st|]; [|congruence]. apply N.eqb_neq in Hj.
    destruct st; cbn [stmt_info] in *; rewrite ?Hj in *; try congruence.
    destruct (nth_error members (N.to_nat (j - 1))) as [[[mk nn] dd]|]; [|congruence].
    unfold member_info. destruct (N.eqb mk 0); reflexivity.
  Qed.

  Lemma par0_nonsub o q : ~ sub o -> par0 o = Some q -> ~ sub q.
  Proof.
    destruct o as [[m i] j]. unfold sub, sparent, sobj. cbn [fst snd]. intros Hns.
    destruct (N.eqb i 0) eqn:Ei.
    - destruct (N.eqb j 0); [|discriminate]. destruct (modinfo_of p m) as [mi|]; [|discriminate]. cbn [s_parent].
      destruct (m_parent mi); [|discriminate]. intros E. inversion E; subst q. cbn [fst snd]. intros [_ E0]. congruence.
    - destruct (stmt_at p m i) as [st|]; [|discriminate].
      destruct st; cbn [stmt_info]; try discriminate.
      + destruct (N.eqb j 0).
        * intros E. inversion E; subst q. cbn [fst snd]. intros [_ E0]. congruence.
        * destruct (nth_error members (N.to_nat (j - 1))) as [[[mk nn] dd]|]; [|discriminate].
          unfold member_info. destruct (N.eqb mk 0); intros E; inversion E; subst q; cbn [fst snd]; exact Hns.
      + destruct (N.eqb j 0); [|discriminate]. intros E. inversion E; subst q. cbn [fst snd]. intros [_ E0]. congruence.
      + destruct (N.eqb j 0); [|discriminate]. intros E. inversion E; subst q. cbn [fst snd]. intros [_ E0]. congruence.
  Qed.

  Lemma sub_x : sub x.
  Proof. split; reflexivity. Qed.

  Lemma nonsub_ne_x o : ~ sub o -> oid_eqb o x = false.
  Proof. intros H. apply oid_eqb_neq. intros ->. apply H. apply sub_x. Qed.

  Lemma key1_nonsub_f f : forall o, ~ sub o -> qname_f nm1 par1 f o = qname_f nm0 par0 f o.
  Proof.
    induction f as [|f IH]; intros o Hns; cbn [qname_f]; [reflexivity|].
    assert (En : nm1 o = nm0 o) by (unfold nm1; rewrite (nonsub_ne_x o Hns); reflexivity).
    assert (Ep : par1 o = par0 o) by (unfold par1; rewrite (nonsub_ne_x o Hns); reflexivity).
    rewrite En, Ep.
    destruct (par0 o) as [q|] eqn:Eq; [|reflexivity]. rewrite (IH q (par0_nonsub o q Hns Eq)). reflexivity.
  Qed.
  Lemma key1_nonsub o : ~ sub o -> key1 o = key0 o.
  Proof. apply key1_nonsub_f. Qed.

  Lemma Rm_nonsub : ~ sub Rm.
  Proof. intros [E _]. cbn in E. congruence. Qed.
  Lemma Dm_nonsub : ~ sub Dm.
  Proof. intros [_ E]. cbn in E. congruence. Qed.

  Lemma sparent_third o q : par0 o = Some q -> snd q = 0.
  Proof.
    destruct o as [[m i] j]. unfold sparent, sobj.
    destruct (N.eqb i 0).
    - destruct (N.eqb j 0); [|discriminate]. destruct (modinfo_of p m) as [mi|]; [|discriminate]. cbn [s_parent].
      destruct (m_parent mi); [|discriminate]. intros E. inversion E. reflexivity.
    - destruct (stmt_at p m i) as [st|]; [|discriminate]. destruct st; cbn [stmt_info]; try discriminate.
      + destruct (N.eqb j 0); [intros E; inversion E; reflexivity|].
        destruct (nth_error members (N.to_nat (j - 1))) as [[[mk nn] dd]|]; [|discriminate].
        unfold member_info. destruct (N.eqb mk 0); intros E; inversion E; reflexivity.
      + destruct (N.eqb j 0); [intros E; inversion E; reflexivity|discriminate].
      + destruct (N.eqb j 0); [intros E; inversion E; reflexivity|discriminate].
  Qed.

  Lemma member_third c : par0 c = Some x -> snd c <> 0.
  Proof.
    destruct c as [[m i] j]. unfold sparent, sobj. cbn [snd].
    destruct (N.eqb i 0) eqn:Ei.
    - destruct (N.eqb j 0); [|discriminate]. destruct (modinfo_of p m) as [mi|]; [|discriminate]. cbn [s_parent].
      destruct (m_parent mi); [|discriminate]. intros E. inversion E. congruence.
    - destruct (stmt_at p m i) as [st|]; [|discriminate]. destruct st; cbn [stmt_info]; try discriminate.
      + destruct (N.eqb j 0) eqn:Ej; [intros E; inversion E; congruence|]. intros _. apply N.eqb_neq. exact Ej.
      + destruct (N.eqb j 0); [intros E; inversion E; congruence|discriminate].
      + destruct (N.eqb j 0); [intros E; inversion E; congruence|discriminate].
  Qed.

  Lemma sub_dec o : sub o \/ ~ sub o.
  Proof.
    unfold sub. destruct (N.eq_dec (fst (fst o)) D) as [E1|E1]; [|right; tauto].
    destruct (N.eq_dec (snd (fst o)) ix) as [E2|E2]; [left; auto|right; tauto].
  Qed.

  (* ---- Documentable.reparent(x, R, n) on a coherent registry ---- *)
  Lemma reparent_move C s :
    OA p nm0 par0 C s -> OR p nm0 par0 C s -> C x -> C Rm -> C Dm ->
    let s' := reparent s x Rm n in
    OA p nm1 par1 C s' /\ OR p nm1 par1 C s' /\ meta_weak Dm s s' /\
    (exists db, objs s' Dm = Some db /\ nget xname (o_alias db) = Some (key1 x)) /\ same_ctl s s'.
  Proof.
    intros HA HR Cx CR CD s'. subst s'.
    assert (Hex : forall o, C o -> exists ob, objs s o = Some ob).
    { intros o Co. destruct (objs s o) eqn:E; [eauto|]. apply (oa_exists _ _ _ _ _ HA) in Co. congruence. }
    destruct (Hex x Cx) as (xb & Ex). destruct (Hex Rm CR) as (rb & Er). destruct (Hex Dm CD) as (db & Ed).
    assert (Hsx : exists six, sobj p x = Some six) by (destruct (sobj p x); [eauto|congruence]).
    destruct Hsx as (six & Esx).
    destruct (oa_static _ _ _ _ _ HA x xb six Ex Esx) as (_ & _ & Hxn & Hxp & _).
    rewrite sparent_x in Hxp. rewrite Hxname in Hxn.
    assert (HxR : x <> Rm) by (intros E; inversion E; congruence).
    assert (HxD : x <> Dm) by (intros E; inversion E; congruence).
    assert (HRDm : Rm <> Dm) by (intros E; inversion E; congruence).
    (* the members of x are leaves *)
    set (cs := map snd (o_contents xb)).
    assert (Hcs : forall c, In c cs <-> C c /\ par0 c = Some x).
    { intros c. unfold cs. rewrite in_map_iff. split.
      - intros ([k c'] & E & Hin). cbn [snd] in E. subst c'.
        pose proof (In_nget k c _ (oa_cnodup _ _ _ _ _ HA x xb Ex) Hin) as Hg.
        destruct (oa_contents _ _ _ _ _ HA x xb k c Ex Hg) as (A & B & _). auto.
      - intros [Cc Pc]. destruct (oa_complete _ _ _ _ _ HA c x Cc Pc) as (xb' & Ex' & Hg). rewrite Ex in Ex'. inversion Ex'; subst xb'.
        exists (nm0 c, c). split; [reflexivity|apply nget_In; exact Hg]. }
    assert (Hleaf : forall c, In c cs -> contents_of s c = []).
    { intros c Hc. apply Hcs in Hc. destruct Hc as [Cc Pc]. destruct (Hex c Cc) as (cb & Ec). unfold contents_of. rewrite Ec.
      destruct (o_contents cb) as [|[k v] l] eqn:El; [reflexivity|]. exfalso.
      assert (Hg : nget k (o_contents cb) = Some v) by (rewrite El; unfold nget; cbn [aget]; rewrite N.eqb_refl; reflexivity).
      destruct (oa_contents _ _ _ _ _ HA c cb k v Ec Hg) as (_ & Pv & _).
      apply sparent_third in Pv. apply member_third in Pc. contradiction. }
    assert (Hsub : subtree s x = x :: cs).
    { unfold subtree. rewrite (oa_fuel _ _ _ _ _ HA). unfold depth_fuel. rewrite Nat.add_comm. cbn [Nat.add subtree_f].
      f_equal. assert (Ecx : contents_of s x = o_contents xb) by (unfold contents_of; rewrite Ex; reflexivity).
      rewrite Ecx. unfold cs.
      assert (Hgen : forall l : list (N * oid), (forall kc, In kc l -> contents_of s (snd kc) = []) ->
                               flat_map (fun c => subtree_f (3 + length p) s (snd c)) l = map snd l).
      { induction l as [|kc l IH]; intros Hl; cbn [flat_map map]; [reflexivity|].
        rewrite IH by (intros kc' Hin; apply Hl; right; exact Hin).
        cbn [Nat.add subtree_f]. rewrite (Hl kc (or_introl eq_refl)). reflexivity. }
      apply Hgen. intros kc Hin. apply Hleaf. unfold cs. apply in_map. exact Hin. }
    assert (HCsub : forall o, In o (x :: cs) -> C o).
    { intros o [<-|Hc]; [exact Cx|apply Hcs in Hc; tauto]. }
    assert (Hsubl : forall o, C o -> (In o (x :: cs) <-> sub o)).
    { intros o Co. split.
      - intros [<-|Hc]; [apply sub_x|]. apply Hcs in Hc. destruct Hc as [_ Pc].
        destruct o as [[m i] j]. unfold sub. cbn [fst snd].
        unfold sparent, sobj in Pc. destruct (N.eqb i 0) eqn:Ei.
        + destruct (N.eqb j 0); [|discriminate]. destruct (modinfo_of p m) as [mi|]; [|discriminate]. cbn [s_parent] in Pc.
          destruct (m_parent mi); [|discriminate]. inversion Pc. congruence.
        + destruct (stmt_at p m i) as [st|]; [|discriminate]. destruct st; cbn [stmt_info] in Pc; try discriminate.
          * destruct (N.eqb j 0); [inversion Pc; congruence|].
            destruct (nth_error members (N.to_nat (j - 1))) as [[[mk nn] dd]|]; [|discriminate].
            unfold member_info in Pc. destruct (N.eqb mk 0); inversion Pc; auto.
          * destruct (N.eqb j 0); [inversion Pc; congruence|discriminate].
          * destruct (N.eqb j 0); [inversion Pc; congruence|discriminate].
      - intros Hs. destruct (sub_dom o (oa_dom _ _ _ _ _ HA o Co) Hs) as [->|Pc]; [left; reflexivity|right].
        apply Hcs. auto. }
    (* the state after each phase *)
    unfold reparent. rewrite Ex, Hxp. cbv zeta. rewrite Hsub.
    rewrite (unregister_spec (x :: cs) s).
    assert (Hfn0 : forall o, C o -> full_name s o = key0 o) by (intros o Co; eapply full_name_key; eassumption).
    set (A1 := fold_left (fun a o => pdel (full_name s o) a) (x :: cs) (allobjs s)).
    set (s1 := set_all s A1).
    assert (E1x : objs s1 x = Some xb) by exact Ex.
    rewrite (upd_obj_some s1 x _ xb E1x). rewrite Hxn.
    match goal with |- context [set_obj s1 x ?b] => set (xb' := b) end.
    set (s2 := set_obj s1 x xb').
    assert (O2 : forall o, objs s2 o = if oid_eqb o x then Some xb' else objs s o) by (intros o; reflexivity).
    assert (Hfn1 : forall s3, objs s3 = objs s2 \/
                              (forall o, objs s3 o = if oid_eqb o Dm then option_map (fun b => with_contents (ndel xname (o_contents b)) b) (objs s2 Dm) else objs s2 o) ->
                              dfuel s3 = dfuel s -> forall o, C o -> full_name s3 o = key1 o).
    { intros s3 Hobj Hdf. apply (full_name_expected p nm1 par1 C s3).
      - rewrite Hdf. apply (oa_fuel _ _ _ _ _ HA).
      - intros o Co. destruct (Hex o Co) as (ob & Eo). destruct (sobj p o) as [si|] eqn:Es; [|exfalso; apply (oa_dom _ _ _ _ _ HA o Co); exact Es].
        destruct (oa_static _ _ _ _ _ HA o ob si Eo Es) as (_ & _ & Hn & Hp & _).
        assert (Hbase : exists ob2, objs s2 o = Some ob2 /\ o_name ob2 = nm1 o /\ o_parent ob2 = par1 o).
        { rewrite O2. unfold nm1, par1. destruct (oid_eqb o x) eqn:E.
          - exists xb'. repeat split.
          - exists ob. auto. }
        destruct Hbase as (ob2 & E2 & N2 & P2).
        destruct Hobj as [Hobj|Hobj]; [rewrite Hobj; eauto|]. rewrite Hobj.
        destruct (oid_eqb o Dm) eqn:EDm; [|eauto].
        apply oid_eqb_eq in EDm. subst o. rewrite E2. cbn [option_map]. eexists. split; [reflexivity|]. cbn [with_contents o_name o_parent]. auto.
      - intros o q Co. unfold par1. destruct (oid_eqb o x); [intros E; inversion E; exact CR|apply (oa_closed _ _ _ _ _ HA); exact Co]. }
    rewrite (register_spec (x :: cs) s2).
    assert (Hfn2 : forall o, C o -> full_name s2 o = key1 o) by (apply Hfn1; [left; reflexivity|reflexivity]).
    set (A3 := fold_left (fun a o => pset (full_name s2 o) o a) (x :: cs) (allobjs s2)).
    set (s3 := set_all s2 A3).
    assert (O3 : forall o, objs s3 o = objs s2 o) by (intros o; reflexivity).
    assert (E3D : objs s3 Dm = Some db) by (rewrite O3, O2, (oid_eqb_neq Dm x (fun e => HxD (eq_sym e))); exact Ed).
    rewrite (upd_obj_some s3 Dm _ db E3D).
    set (db1 := with_contents (ndel xname (o_contents db)) db).
    set (s4 := set_obj s3 Dm db1).
    assert (E4D : objs s4 Dm = Some db1) by apply objs_set_obj_same.
    rewrite (upd_obj_some s4 Dm _ db1 E4D).
    assert (Hfn4 : full_name s4 x = key1 x).
    { apply Hfn1; [right|reflexivity|exact Cx]. intros o. unfold s4. rewrite objs_set_obj.
      destruct (oid_eqb o Dm) eqn:E; [|apply O3]. rewrite O2, (oid_eqb_neq Dm x (fun e => HxD (eq_sym e))), Ed. reflexivity. }
    rewrite Hfn4.
    set (db2 := with_alias (nset xname (key1 x) (o_alias db1)) db1).
    set (s5 := set_obj s4 Dm db2).
    assert (E5R : objs s5 Rm = Some rb).
    { unfold s5, s4. rewrite !objs_set_obj_other by exact HRDm. rewrite O3, O2, (oid_eqb_neq Rm x (fun e => HxR (eq_sym e))). exact Er. }
    rewrite (upd_obj_some s5 Rm _ rb E5R).
    set (rb' := with_contents (nset n x (o_contents rb)) rb).
    set (s6 := set_obj s5 Rm rb').
    assert (O6 : forall o, objs s6 o = if oid_eqb o Rm then Some rb' else if oid_eqb o Dm then Some db2
                                       else if oid_eqb o x then Some xb' else objs s o).
    { intros o. unfold s6, s5, s4. rewrite !objs_set_obj.
      destruct (oid_eqb o Rm); [reflexivity|]. destruct (oid_eqb o Dm); [reflexivity|]. rewrite O3. apply O2. }
    assert (HA6 : allobjs s6 = A3) by reflexivity.
    (* the registry *)
    assert (HA1 : A1 = fold_left (fun a k => pdel k a) (map (fun o => key0 o) (x :: cs)) (allobjs s)).
    { unfold A1. rewrite <- (fold_left_map (fun a k => pdel k a) (fun o => key0 o)).
      assert (Hg : forall l a, (forall o, In o l -> C o) ->
                             fold_left (fun a o => pdel (full_name s o) a) l a = fold_left (fun a o => pdel (key0 o) a) l a).
      { induction l as [|o l IH]; intros a Hl; cbn [fold_left]; [reflexivity|].
        rewrite (Hfn0 o (Hl o (or_introl eq_refl))). apply IH. intros o' Ho'. apply Hl. right. exact Ho'. }
      apply Hg. exact HCsub. }
    assert (HA3 : A3 = fold_left (fun a ko => pset (fst ko) (snd ko) a) (map (fun o => (key1 o, o)) (x :: cs)) A1).
    { unfold A3. change (allobjs s2) with A1.
      rewrite <- (fold_left_map (fun a ko => pset (fst ko) (snd ko) a) (fun o => (key1 o, o))). cbn [fst snd].
      assert (Hg : forall l a, (forall o, In o l -> C o) ->
                             fold_left (fun a o => pset (full_name s2 o) o a) l a = fold_left (fun a o => pset (key1 o) o a) l a).
      { induction l as [|o l IH]; intros a Hl; cbn [fold_left]; [reflexivity|].
        rewrite (Hfn2 o (Hl o (or_introl eq_refl))). apply IH. intros o' Ho'. apply Hl. right. exact Ho'. }
      apply Hg. exact HCsub. }
    assert (Hndl : NoDup (x :: cs)).
    { constructor.
      - intros Hin. apply Hcs in Hin. destruct Hin as [_ Pc]. rewrite sparent_x in Pc. inversion Pc. congruence.
      - unfold cs. pose proof (oa_cnodup _ _ _ _ _ HA x xb Ex) as Hnd.
        assert (Hinj : forall l, NoDup (map fst l) -> (forall k c, In (k, c) l -> nget k l = Some c) ->
                                 (forall k c, In (k, c) l -> nm0 c = k) -> NoDup (map snd l)).
        { induction l as [|[k c] l IH]; cbn [map fst snd]; intros Hnd' Hg Hk; [constructor|].
          inversion Hnd' as [|? ? Hni Hnd'']; subst. constructor.
          - intros Hin. apply in_map_iff in Hin. destruct Hin as ([k' c'] & E & Hin). cbn [snd] in E. subst c'.
            apply Hni. apply in_map_iff. exists (k', c). split; [|exact Hin]. cbn [fst].
            rewrite <- (Hk k' c (or_intror Hin)). rewrite <- (Hk k c (or_introl eq_refl)). reflexivity.
          - apply IH; [exact Hnd''| |].
            + intros k' c' Hin. apply In_nget; assumption.
            + intros k' c' Hin. apply Hk. right. exact Hin. }
        apply Hinj; [exact Hnd| |].
        + intros k c Hin. apply In_nget; assumption.
        + intros k c Hin. pose proof (In_nget k c _ Hnd Hin) as Hg.
          destruct (oa_contents _ _ _ _ _ HA x xb k c Ex Hg) as (_ & _ & E). exact E. }
    assert (Hk1inj : NoDup (map fst (map (fun o => (key1 o, o)) (x :: cs)))).
    { rewrite map_map. cbn [fst]. apply NoDup_map_in; [|exact Hndl].
      intros a b Ha Hb E. apply H1; [apply (oa_dom _ _ _ _ _ HA); apply HCsub; exact Ha|apply (oa_dom _ _ _ _ _ HA); apply HCsub; exact Hb|exact E]. }
    pose proof (fold_pdel_spec (map (fun o => key0 o) (x :: cs)) (allobjs s) [] (or_nodup _ _ _ _ _ HR)) as (Hnd1 & _).
    rewrite <- HA1 in Hnd1.
    pose proof (fold_pset_spec (map (fun o => (key1 o, o)) (x :: cs)) A1 Hnd1 Hk1inj) as (Hnd3 & Hin3 & Hout3).
    rewrite <- HA3 in Hnd3, Hin3, Hout3.
    assert (Hreg : forall k o, pget k A3 = Some o <-> C o /\ key1 o = k).
    { intros k o. destruct (in_dec (list_eq_dec N.eq_dec) k (map fst (map (fun o => (key1 o, o)) (x :: cs)))) as [Hin|Hni].
      - rewrite map_map in Hin. cbn [fst] in Hin. apply in_map_iff in Hin. destruct Hin as (o1 & <- & Ho1).
        rewrite (Hin3 (key1 o1) o1) by (apply in_map_iff; exists o1; auto). split.
        + intros E. inversion E; subst o. split; [apply HCsub; exact Ho1|reflexivity].
        + intros [Co E]. f_equal. apply H1; [apply (oa_dom _ _ _ _ _ HA); apply HCsub; exact Ho1|apply (oa_dom _ _ _ _ _ HA); exact Co|congruence].
      - rewrite (Hout3 k Hni). rewrite HA1.
        destruct (fold_pdel_spec (map (fun o => key0 o) (x :: cs)) (allobjs s) k (or_nodup _ _ _ _ _ HR)) as (_ & Hdel & Hkeep).
        destruct (in_dec (list_eq_dec N.eq_dec) k (map (fun o => key0 o) (x :: cs))) as [Hin0|Hni0].
        + rewrite (Hdel Hin0). split; [discriminate|]. intros [Co E]. exfalso.
          apply in_map_iff in Hin0. destruct Hin0 as (o1 & E1 & Ho1).
          destruct (sub_dec o) as [Hs|Hns].
          * apply Hni. rewrite map_map. cbn [fst]. apply in_map_iff. exists o. split; [exact E|]. apply (Hsubl o Co). exact Hs.
          * rewrite (key1_nonsub o Hns) in E. assert (o1 = o).
            { apply H0; [apply (oa_dom _ _ _ _ _ HA); apply HCsub; exact Ho1|apply (oa_dom _ _ _ _ _ HA); exact Co|exact (eq_trans E1 (eq_sym E))]. }
            subst o1. apply Hns. apply (Hsubl o Co). exact Ho1.
        + rewrite (Hkeep Hni0). split.
          * intros Hg. destruct (or_sound _ _ _ _ _ HR k o Hg) as [Co E]. split; [exact Co|].
            assert (Hns : ~ sub o).
            { intros Hs. apply Hni0. apply in_map_iff. exists o. split; [exact E|]. apply (Hsubl o Co). exact Hs. }
            rewrite (key1_nonsub o Hns). exact E.
          * intros [Co E]. assert (Hns : ~ sub o).
            { intros Hs. apply Hni. rewrite map_map. cbn [fst]. apply in_map_iff. exists o. split; [exact E|]. apply (Hsubl o Co). exact Hs. }
            rewrite (key1_nonsub o Hns) in E. rewrite <- E. apply (or_complete _ _ _ _ _ HR). exact Co. }
    assert (Hxb' : o_tag xb' = o_tag xb /\ o_kind xb' = o_kind xb /\ o_doc xb' = o_doc xb /\ o_contents xb' = o_contents xb /\
                   o_all xb' = o_all xb /\ o_alias xb' = o_alias xb /\ o_name xb' = n /\ o_parent xb' = Some Rm)
      by (unfold xb'; repeat split).
    destruct Hxb' as (X1 & X2 & X3 & X4 & X5 & X6 & X7 & X8).
    assert (Hne_x : forall o, o <> x -> nm1 o = nm0 o /\ par1 o = par0 o).
    { intros o Hne. unfold nm1, par1. rewrite (oid_eqb_neq o x Hne). auto. }
    assert (Hnm1x : nm1 x = n /\ par1 x = Some Rm) by (unfold nm1, par1; rewrite oid_eqb_refl; auto).
    destruct Hnm1x as [Hn1x Hp1x].
    fold s6.
    (* the second _handle_reparenting_post re-assigns the keys the first one wrote *)
    assert (Hsub6 : subtree s6 x = x :: cs).
    { unfold subtree. change (dfuel s6) with (dfuel s). rewrite (oa_fuel _ _ _ _ _ HA). unfold depth_fuel. rewrite Nat.add_comm.
      cbn [Nat.add subtree_f]. f_equal.
      assert (Ecx : contents_of s6 x = o_contents xb).
      { unfold contents_of. rewrite O6, (oid_eqb_neq x Rm HxR), (oid_eqb_neq x Dm HxD), oid_eqb_refl. exact X4. }
      rewrite Ecx. unfold cs.
      assert (Hgen : forall l : list (N * oid), (forall kc, In kc l -> contents_of s6 (snd kc) = []) ->
                               flat_map (fun c => subtree_f (3 + length p) s6 (snd c)) l = map snd l).
      { induction l as [|kc l IH]; intros Hl; cbn [flat_map map]; [reflexivity|].
        rewrite IH by (intros kc' Hin; apply Hl; right; exact Hin).
        cbn [Nat.add subtree_f]. rewrite (Hl kc (or_introl eq_refl)). reflexivity. }
      apply Hgen. intros kc Hin.
      assert (Hc : In (snd kc) cs) by (unfold cs; apply in_map; exact Hin).
      pose proof (Hleaf _ Hc) as Hl0. apply Hcs in Hc. destruct Hc as [_ Pc]. pose proof (member_third _ Pc) as H3.
      unfold contents_of in Hl0 |- *. rewrite O6.
      rewrite (oid_eqb_neq (snd kc) Rm) by (intros E; rewrite E in H3; apply H3; reflexivity).
      rewrite (oid_eqb_neq (snd kc) Dm) by (intros E; rewrite E in H3; apply H3; reflexivity).
      rewrite (oid_eqb_neq (snd kc) x) by (intros E; rewrite E in H3; apply H3; reflexivity).
      exact Hl0. }
    assert (Hfn6 : forall o, C o -> full_name s6 o = key1 o).
    { apply (full_name_expected p nm1 par1 C s6).
      - change (dfuel s6) with (dfuel s). apply (oa_fuel _ _ _ _ _ HA).
      - intros o Co. destruct (Hex o Co) as (ob & Eo). destruct (sobj p o) as [si|] eqn:Es; [|exfalso; apply (oa_dom _ _ _ _ _ HA o Co); exact Es].
        destruct (oa_static _ _ _ _ _ HA o ob si Eo Es) as (_ & _ & Hn & Hp & _). rewrite O6.
        destruct (oid_eqb o Rm) eqn:E1.
        { apply oid_eqb_eq in E1. subst o. rewrite Er in Eo. inversion Eo; subst ob. exists rb'.
          destruct (Hne_x Rm (fun e => HxR (eq_sym e))) as [-> ->]. unfold rb'. cbn [with_contents o_name o_parent]. auto. }
        destruct (oid_eqb o Dm) eqn:E2.
        { apply oid_eqb_eq in E2. subst o. rewrite Ed in Eo. inversion Eo; subst ob. exists db2.
          destruct (Hne_x Dm (fun e => HxD (eq_sym e))) as [-> ->]. unfold db2, db1. cbn [with_alias with_contents o_name o_parent]. auto. }
        destruct (oid_eqb o x) eqn:E3.
        { apply oid_eqb_eq in E3. subst o. exists xb'. rewrite X7, X8, Hn1x, Hp1x. auto. }
        exists ob. destruct (Hne_x o) as [-> ->]; [intros ->; rewrite oid_eqb_refl in E3; discriminate|]. auto.
      - intros o q Co. unfold par1. destruct (oid_eqb o x); [intros E; inversion E; exact CR|apply (oa_closed _ _ _ _ _ HA); exact Co]. }
    assert (Hreg2 : register s6 (subtree s6 x) = s6).
    { rewrite Hsub6, (register_spec (x :: cs) s6). change (allobjs s6) with A3.
      assert (Hg : forall l, (forall o, In o l -> C o) -> fold_left (fun a o => pset (full_name s6 o) o a) l A3 = A3).
      { induction l as [|o l IH]; intros Hl; cbn [fold_left]; [reflexivity|].
        rewrite (Hfn6 o (Hl o (or_introl eq_refl))).
        rewrite (pset_same (key1 o) o A3) by (apply Hreg; split; [apply Hl; left; reflexivity|reflexivity]).
        apply IH. intros o' Ho'. apply Hl. right. exact Ho'. }
      rewrite (Hg (x :: cs) HCsub). exact (set_all_id s6). }
    change (set_obj s5 Rm (with_contents (nset n x (o_contents rb)) rb)) with s6. rewrite Hreg2.
    split; [|split; [|split; [|split]]].
    - (* objects *)
      constructor.
      + exact (oa_fuel _ _ _ _ _ HA).
      + exact (oa_dom _ _ _ _ _ HA).
      + intros o. rewrite O6. destruct (oid_eqb o Rm) eqn:E1; [apply oid_eqb_eq in E1; subst o; split; [intros _; exact CR|discriminate]|].
        destruct (oid_eqb o Dm) eqn:E2; [apply oid_eqb_eq in E2; subst o; split; [intros _; exact CD|discriminate]|].
        destruct (oid_eqb o x) eqn:E3; [apply oid_eqb_eq in E3; subst o; split; [intros _; exact Cx|discriminate]|].
        apply (oa_exists _ _ _ _ _ HA).
      + intros o ob si. rewrite O6. destruct (oid_eqb o Rm) eqn:E1.
        { apply oid_eqb_eq in E1. subst o. intros E Hs. inversion E; subst ob.
          destruct (oa_static _ _ _ _ _ HA Rm rb si Er Hs) as (A1' & A2 & A3' & A4 & A5).
          destruct (Hne_x Rm (fun e => HxR (eq_sym e))) as [-> ->]. unfold rb'. cbn [with_contents o_tag o_kind o_name o_parent o_doc]. auto. }
        destruct (oid_eqb o Dm) eqn:E2.
        { apply oid_eqb_eq in E2. subst o. intros E Hs. inversion E; subst ob.
          destruct (oa_static _ _ _ _ _ HA Dm db si Ed Hs) as (A1' & A2 & A3' & A4 & A5).
          destruct (Hne_x Dm (fun e => HxD (eq_sym e))) as [-> ->]. unfold db2, db1. cbn [with_alias with_contents o_tag o_kind o_name o_parent o_doc]. auto. }
        destruct (oid_eqb o x) eqn:E3.
        { apply oid_eqb_eq in E3. subst o. intros E Hs. inversion E; subst ob.
          destruct (oa_static _ _ _ _ _ HA x xb si Ex Hs) as (A1' & A2 & A3' & A4 & A5).
          rewrite X1, X2, X3, X7, X8, Hn1x, Hp1x. auto. }
        intros E Hs. destruct (oa_static _ _ _ _ _ HA o ob si E Hs) as (A1' & A2 & A3' & A4 & A5).
        destruct (Hne_x o) as [-> ->]; [intros ->; rewrite oid_eqb_refl in E3; discriminate|]. auto.
      + intros o q Co. destruct (oid_eq_dec o x) as [->|Hne].
        * rewrite Hp1x. intros E. inversion E. exact CR.
        * destruct (Hne_x o Hne) as [_ ->]. apply (oa_closed _ _ _ _ _ HA). exact Co.
      + intros S sb k o. rewrite O6. destruct (oid_eqb S Rm) eqn:E1.
        { apply oid_eqb_eq in E1. subst S. intros E. inversion E; subst sb. unfold rb'. cbn [with_contents o_contents].
          destruct (N.eq_dec k n) as [->|Hkn].
          - rewrite nget_nset_same. intros E'. inversion E'; subst o. auto.
          - rewrite nget_nset_other by exact Hkn. intros Hg. destruct (oa_contents _ _ _ _ _ HA Rm rb k o Er Hg) as (A & B & Cn).
            assert (Hox : o <> x) by (intros ->; rewrite sparent_x in B; inversion B; congruence).
            destruct (Hne_x o Hox) as [-> ->]. auto. }
        destruct (oid_eqb S Dm) eqn:E2.
        { apply oid_eqb_eq in E2. subst S. intros E. inversion E; subst sb. unfold db2, db1. cbn [with_alias with_contents o_contents].
          destruct (N.eq_dec k xname) as [->|Hkx].
          - rewrite (nget_ndel_same xname (o_contents db) (oa_cnodup _ _ _ _ _ HA Dm db Ed)). discriminate.
          - rewrite nget_ndel_other by exact Hkx. intros Hg. destruct (oa_contents _ _ _ _ _ HA Dm db k o Ed Hg) as (A & B & Cn).
            assert (Hox : o <> x) by (intros ->; congruence).
            destruct (Hne_x o Hox) as [-> ->]. auto. }
        destruct (oid_eqb S x) eqn:E3.
        { apply oid_eqb_eq in E3. subst S. intros E. inversion E; subst sb. rewrite X4. intros Hg.
          destruct (oa_contents _ _ _ _ _ HA x xb k o Ex Hg) as (A & B & Cn).
          assert (Hox : o <> x) by (intros ->; rewrite sparent_x in B; inversion B; congruence).
          destruct (Hne_x o Hox) as [-> ->]. auto. }
        intros E Hg. destruct (oa_contents _ _ _ _ _ HA S sb k o E Hg) as (A & B & Cn).
        assert (Hox : o <> x).
        { intros ->. rewrite sparent_x in B. inversion B; subst S. rewrite oid_eqb_refl in E2. discriminate. }
        destruct (Hne_x o Hox) as [-> ->]. auto.
      + intros o S Co. destruct (oid_eq_dec o x) as [->|Hne].
        * rewrite Hp1x, Hn1x. intros E. inversion E; subst S. exists rb'. rewrite O6, oid_eqb_refl. split; [reflexivity|].
          unfold rb'. cbn [with_contents o_contents]. apply nget_nset_same.
        * destruct (Hne_x o Hne) as [-> ->]. intros Hp.
          destruct (oa_complete _ _ _ _ _ HA o S Co Hp) as (sb & Es & Hg). rewrite O6.
          destruct (oid_eqb S Rm) eqn:E1.
          { apply oid_eqb_eq in E1. subst S. rewrite Er in Es. inversion Es; subst sb. exists rb'. split; [reflexivity|].
            unfold rb'. cbn [with_contents o_contents]. rewrite nget_nset_other; [exact Hg|]. intros En. apply Hne.
            apply H1; [apply (oa_dom _ _ _ _ _ HA); exact Co|exact Hxdom|]. apply key_same.
            - rewrite Hp1x. destruct (Hne_x o Hne) as [_ ->]. exact Hp.
            - rewrite Hn1x. destruct (Hne_x o Hne) as [-> _]. exact En. }
          destruct (oid_eqb S Dm) eqn:E2.
          { apply oid_eqb_eq in E2. subst S. rewrite Ed in Es. inversion Es; subst sb. exists db2. split; [reflexivity|].
            unfold db2, db1. cbn [with_alias with_contents o_contents]. rewrite nget_ndel_other; [exact Hg|]. intros En. apply Hne.
            apply H0; [apply (oa_dom _ _ _ _ _ HA); exact Co|exact Hxdom|]. apply (key_same p nm0 par0); [rewrite sparent_x; exact Hp|congruence]. }
          destruct (oid_eqb S x) eqn:E3.
          { apply oid_eqb_eq in E3. subst S. rewrite Ex in Es. inversion Es; subst sb. exists xb'. rewrite X4. auto. }
          exists sb. auto.
      + intros S sb. rewrite O6. destruct (oid_eqb S Rm) eqn:E1.
        { intros E. inversion E; subst sb. unfold rb'. cbn [with_contents o_contents]. apply nset_keys_nodup.
          exact (oa_cnodup _ _ _ _ _ HA Rm rb Er). }
        destruct (oid_eqb S Dm) eqn:E2.
        { intros E. inversion E; subst sb. unfold db2, db1. cbn [with_alias with_contents o_contents]. apply ndel_keys_nodup.
          exact (oa_cnodup _ _ _ _ _ HA Dm db Ed). }
        destruct (oid_eqb S x) eqn:E3.
        { intros E. inversion E; subst sb. rewrite X4. exact (oa_cnodup _ _ _ _ _ HA x xb Ex). }
        apply (oa_cnodup _ _ _ _ _ HA).
    - (* registry *)
      constructor.
      + intros k o. change (pget k A3 = Some o -> C o /\ key1 o = k). apply Hreg.
      + intros o Co. change (pget (key1 o) A3 = Some o). apply Hreg. auto.
      + change (NoDup (map fst A3)). exact Hnd3.
    - (* docstrings, __all__, alias maps *)
      intros o ob Ho. rewrite O6. destruct (oid_eqb o Rm) eqn:E1.
      { apply oid_eqb_eq in E1. subst o. rewrite Er in Ho. inversion Ho; subst ob. exists rb'. unfold rb'. repeat split. }
      destruct (oid_eqb o Dm) eqn:E2.
      { apply oid_eqb_eq in E2. subst o. rewrite Ed in Ho. inversion Ho; subst ob. exists db2. unfold db2, db1. repeat split.
        intros Hc. contradiction. }
      destruct (oid_eqb o x) eqn:E3.
      { apply oid_eqb_eq in E3. subst o. rewrite Ex in Ho. inversion Ho; subst ob. exists xb'. repeat split; assumption. }
      exists ob. auto.
    - exists db2. rewrite O6, (oid_eqb_neq Dm Rm (fun e => HRDm (eq_sym e))), oid_eqb_refl. split; [reflexivity|].
      unfold db2. cbn [with_alias o_alias]. apply nget_nset_same.
    - repeat split.
  Qed.
End Move.

(* ---------------------------------------------------------------- helpers that relate two instances of the invariant *)
Lemma created_finish p s fr rest :
  frames s = fr :: rest -> f_todo fr = [] ->
  forall o, created_of p s o <-> created_of p (set_frames (set_mst s (f_mod fr) PROCESSED) rest) o.
Proof.
  intros Hf Ht.
  assert (Hpend : forall m i, pending_of (set_frames (set_mst s (f_mod fr) PROCESSED) rest) m i <-> pending_of s m i).
  { intros m i. unfold pending_of. cbn [set_frames set_mst unproc frames]. rewrite Hf. split.
    - intros [H|(fr0 & st & Hin & Hm & Hst)]; [left; exact H|right; exists fr0, st; split; [right; exact Hin|auto]].
    - intros [H|(fr0 & st & [<-|Hin] & Hm & Hst)]; [left; exact H|rewrite Ht in Hst; destruct Hst|right; eauto]. }
  intros o. unfold created_of. rewrite Hpend. tauto.
Qed.

Lemma Inv_cross p nmA parA GoodA nmB parB (GoodB : state -> Prop) s fr rest op todo s1 fr1 cur :
  Inv p nmA parA GoodA s -> frames s = fr :: rest -> f_todo fr = op :: todo -> same_ctl s s1 ->
  f_mod fr1 = f_mod fr -> f_todo fr1 = todo ->
  Ctl p (set_frames s1 (fr1 :: rest)) -> GoodB (set_frames s1 (fr1 :: rest)) ->
  OA p nmB parB (created_of p (set_frames s1 (fr1 :: rest))) s1 ->
  OR p nmB parB (created_of p (set_frames s1 (fr1 :: rest))) s1 ->
  meta_weak cur s s1 -> Inv p nmB parB GoodB (set_frames s1 (fr1 :: rest)).
Proof.
  intros HI Hf Ht Hctl Hfm Hft HC2 HG2 HA HR HM. constructor.
  - exact HC2.
  - eapply (OA_same p nmB parB _ s1); [reflexivity|reflexivity|exact HA].
  - eapply (OR_same p nmB parB _ s1); [reflexivity|exact HR].
  - intros fr0. cbn [set_frames frames]. intros [<-|Hin].
    + destruct (op_mi p nmA parA GoodA s fr rest op todo HI Hf Ht) as (mi & pre & Hmi & He).
      exists mi, (pre ++ [op]). rewrite Hfm, Hft, <- app_assoc. split; [exact Hmi|exact He].
    + apply (i_suffix p _ _ _ s HI). rewrite Hf. right. exact Hin.
  - intros m' mb mi Hmb Hmi. cbn [set_frames objs unproc] in *.
    destruct Hctl as (_ & Hu & _). rewrite Hu.
    pose proof (created_module p s m' mi Hmi) as Hc. apply (oa_exists _ _ _ _ _ (i_oa p _ _ _ s HI)) in Hc.
    destruct (objs s (m', 0, 0)) as [mb0|] eqn:E0; [|congruence].
    destruct (HM _ _ E0) as (mb1 & E1 & D1 & D2 & _). rewrite Hmb in E1. inversion E1; subst mb1.
    rewrite D1, D2. exact (i_meta p _ _ _ s HI m' mb0 mi E0 Hmi).
  - exact HG2.
Qed.

(* ---------------------------------------------------------------- alias bookkeeping of one operation, for any instance *)
Section AliasStep.
  Variable p : project.
  Variables (nm : oid -> N) (par : oid -> option oid).
  Hypothesis Hinj : forall o o', sobj p o <> None -> sobj p o' <> None -> key p nm par o = key p nm par o' -> o = o'.
  Variable Good : state -> Prop.
  (* module objects have their static parent and qualified name in this instance *)
  Hypothesis Hmodpar : forall m, par (m, 0, 0) = sparent p (m, 0, 0).
  Hypothesis Hmodkey : forall m, key p nm par (m, 0, 0) = skey p (m, 0, 0).

  Lemma sparent_module_shape m q : sparent p (m, 0, 0) = Some q -> exists m', q = (m', 0, 0).
  Proof.
    unfold sparent, sobj. cbn [N.eqb]. destruct (modinfo_of p m) as [mi|]; [|discriminate]. cbn [s_parent].
    destruct (m_parent mi); [|discriminate]. intros E. inversion E. eauto.
  Qed.

  Lemma up_parents_static_any s : Inv p nm par Good s -> forall k (y : oid), (exists m, y = (m, 0, 0)) -> created_of p s y ->
    up_parents k s (Some y) = up_static p k (Some y) /\
    (forall q, up_static p k (Some y) = Some q -> created_of p s q /\ exists m', q = (m', 0, 0)).
  Proof.
    intros HI. pose proof (i_oa p _ _ _ s HI) as HA. induction k as [|k IH]; intros y (m & ->) Cy; cbn [up_parents up_static].
    - split; [reflexivity|]. intros q E. inversion E; subst. split; [exact Cy|eauto].
    - destruct (objs s (m, 0, 0)) as [yb|] eqn:Ey; [|exfalso; apply (oa_exists _ _ _ _ _ HA) in Cy; congruence].
      pose proof (oa_dom _ _ _ _ _ HA _ Cy) as Hd. destruct (sobj p (m, 0, 0)) as [si|] eqn:Es; [|congruence].
      destruct (oa_static _ _ _ _ _ HA _ yb si Ey Es) as (_ & _ & _ & Hp & _). rewrite Hp, Hmodpar.
      destruct (sparent p (m, 0, 0)) as [q|] eqn:Eq.
      + destruct (sparent_module_shape m q Eq) as (m' & ->). apply IH; [eauto|]. eapply (oa_closed _ _ _ _ _ HA); [exact Cy|]. rewrite Hmodpar. exact Eq.
      + split; [|intros q E; destruct k; discriminate]. destruct k; reflexivity.
  Qed.

  Lemma resolve_static_any s m mi lvl mn : Inv p nm par Good s -> modinfo_of p m = Some mi ->
    resolve_modname s m lvl mn = static_modname p m lvl mn.
  Proof.
    intros HI Hmi. pose proof (i_oa p _ _ _ s HI) as HA. unfold resolve_modname, static_modname.
    destruct (N.eqb lvl 0); [reflexivity|]. cbv zeta.
    pose proof (created_module p s m mi Hmi) as CM.
    destruct (objs s (m, 0, 0)) as [rb|] eqn:Er; [|exfalso; apply (oa_exists _ _ _ _ _ HA) in CM; congruence].
    assert (Hs : sobj p (m, 0, 0) = Some {| s_tag := if m_pkg mi then T_PACKAGE else T_MODULE; s_kind := if m_pkg mi then K_PACKAGE else K_MODULE;
                                          s_name := m_name mi; s_parent := match m_parent mi with Some q => Some (q, 0, 0) | None => None end;
                                          s_doc := m_doc mi |}) by (unfold sobj; cbn [N.eqb]; rewrite Hmi; reflexivity).
    destruct (oa_static _ _ _ _ _ HA _ rb _ Er Hs) as (Ht & _). cbn [s_tag] in Ht.
    unfold tag_of. rewrite Er, Ht, Hmi.
    assert (Hpk : N.eqb (if m_pkg mi then T_PACKAGE else T_MODULE) T_PACKAGE = m_pkg mi) by (destruct (m_pkg mi); reflexivity).
    rewrite Hpk.
    destruct (up_parents_static_any s HI (N.to_nat (if m_pkg mi then lvl - 1 else lvl)) (m, 0, 0) (ex_intro _ m eq_refl) CM) as [E Hq].
    rewrite E.
    assert (Haux : forall u : option oid, (forall q, u = Some q -> created_of p s q /\ exists m', q = (m', 0, 0)) ->
                   match u with Some q => Some (full_name s q ++ mn) | None => None end =
                   match u with Some q => Some (skey p q ++ mn) | None => None end).
    { intros [q|] Hu; [|reflexivity]. destruct (Hu q eq_refl) as [Cq (m' & ->)].
      rewrite (full_name_key p nm par _ s _ HA Cq), Hmodkey. reflexivity. }
    apply Haux. exact Hq.
  Qed.

  (* the alias map and the local `modname` of the module being walked, after one operation that neither re-exports
     nor is a star import nor an assignment alias *)
  Lemma op_alias_step s fr rest op todo s1 fr1 en mi mb :
    Inv p nm par Good s -> frames s = fr :: rest -> f_todo fr = op :: todo ->
    exec_op s (with_todo todo fr) op = (s1, fr1, en) ->
    modinfo_of p (f_mod fr) = Some mi -> objs s (f_mod fr, 0, 0) = Some mb ->
    (forall o a, op = MImportName o a -> ~ In a (exports_of_mod mi)) ->
    op <> MImportAll -> (forall i t v, op <> MStmt i (SAlias t v)) ->
    exists mb1, objs s1 (f_mod fr, 0, 0) = Some mb1 /\
                (f_modname fr1, o_alias mb1) = alias_op p (f_mod fr) (f_modname fr, o_alias mb) op.
  Proof.
    intros HI Hf Ht He Hmi Emb Hop_name Hnostar Hnoalias. set (m0 := f_mod fr) in *.
    pose proof (op_not_unproc p nm par Good s fr rest HI Hf) as Hnu. fold m0 in Hnu.
    destruct (op_mi p nm par Good s fr rest op todo HI Hf Ht) as (mi' & pre0 & Hmi' & Hexp). fold m0 in Hmi'. rewrite Hmi in Hmi'.
    inversion Hmi'; subst mi'.
    destruct op as [i st|level modname| |orgname|orgname asname|]; cbn [exec_op] in He; change (f_mod (with_todo todo fr)) with m0 in He;
      change (f_modname (with_todo todo fr)) with (f_modname fr) in He; change (f_modobj (with_todo todo fr)) with (f_modobj fr) in He.
    - assert (Hin : In (MStmt i st) (expand_stmts (m_stmts mi))) by (rewrite Hexp; apply in_or_app; right; left; reflexivity).
      destruct (In_expand_stmt_at p m0 i st mi Hmi Hin) as [Hst Hi].
      assert (Hs1 : s1 = exec_stmt s m0 i st) by congruence. assert (Hf1 : fr1 = with_todo todo fr) by congruence.
      assert (Hdef : forall stx, stx = st ->
                        match stx with SClass _ _ _ _ | SFunc _ _ | SVar _ _ | SAll _ | SImportFrom _ _ _ | SImportStar _ _ => True | _ => False end ->
                        alias_op p m0 (f_modname fr, o_alias mb) (MStmt i stx) = (f_modname fr, o_alias mb) ->
                        exists mb1, objs s1 (m0, 0, 0) = Some mb1 /\
                                    (f_modname fr1, o_alias mb1) = alias_op p m0 (f_modname fr, o_alias mb) (MStmt i st)).
      { intros stx -> Hd Ha. destruct (keepA_exec_def s m0 i st Hd (m0, 0, 0) mb Emb) as (mb1 & E1 & A1);
          [intros [_ Hx]; cbn [fst snd] in Hx; congruence|]. exists mb1. rewrite Hs1. split; [exact E1|]. rewrite Hf1, A1, Ha. reflexivity. }
      destruct st as [cn cd bs ms|fn fd|vn vd|target value|target asname|lv mn names|lv mn|names];
        try (eapply Hdef; [reflexivity|exact I|reflexivity]).
      + exfalso. exact (Hnoalias i target value eq_refl).
      + exists (with_alias (let '(a, t) := if N.eqb asname 0 then (hd 0 target, [hd 0 target]) else (asname, target) in nset a t (o_alias mb)) mb).
        rewrite Hs1, Hf1. cbn [exec_stmt]. cbv zeta. cbn [alias_op with_todo f_modname fst snd].
        destruct (N.eqb asname 0); rewrite (upd_obj_some s (m0, 0, 0) _ mb Emb), objs_set_obj_same; split; reflexivity.
    - inversion He; subst s1 fr1 en. exists mb. split; [exact Emb|]. cbn [alias_op with_modvars with_todo f_modname snd].
      rewrite (resolve_static_any s m0 mi level modname HI Hmi). reflexivity.
    - exists mb. destruct (f_modname fr) eqn:Emn; inversion He; subst s1 fr1 en; (split; [exact Emb|]);
        cbn [alias_op with_modvars with_todo f_modname]; rewrite ?Emn; reflexivity.
    - exists mb. assert (Hx : s1 = s /\ fr1 = with_todo todo fr).
      { destruct (f_modname fr); [|inversion He; auto]. destruct (f_modobj fr) as [mo|]; [|inversion He; auto].
        destruct (tag_of s mo) as [tg|]; [|inversion He; auto]. destruct (N.eqb tg T_PACKAGE); inversion He; auto. }
      destruct Hx as [-> ->]. split; [exact Emb|reflexivity].
    - destruct (f_modname fr) as [t|] eqn:Emn.
      + assert (Hs1 : s1 = import_name s m0 t (f_modobj fr) orgname asname) by congruence. assert (Hf1 : fr1 = with_todo todo fr) by congruence.
        pose proof (Hop_name orgname asname eq_refl) as Hne.
        assert (Himp : import_name s m0 t (f_modobj fr) orgname asname =
                       upd_obj s (m0, 0, 0) (fun mb0 => with_alias (nset asname (t ++ [orgname]) (o_alias mb0)) mb0)).
        { unfold import_name. cbv zeta. rewrite (exports_static p nm par Good s m0 mi mb HI Hmi Hnu Emb).
          destruct (f_modobj fr) as [g|]; [|reflexivity].
          rewrite (handle_reexport_not_exported s (m0, 0, 0) _ orgname asname g Hne). reflexivity. }
        rewrite Hs1, Himp, Hf1, (upd_obj_some s (m0, 0, 0) _ mb Emb), objs_set_obj_same. eexists. split; [reflexivity|].
        cbn [alias_op with_todo f_modname fst snd with_alias o_alias]. rewrite Emn. reflexivity.
      + inversion He; subst s1 fr1 en. exists mb. split; [exact Emb|]. cbn [alias_op with_todo f_modname fst]. rewrite Emn. reflexivity.
    - exfalso. apply Hnostar. reflexivity.
  Qed.
End AliasStep.

(* ================================================================ the machine with one designated re-export *)
Lemma expand_from_app a : forall k b,
  expand_from k (a ++ b) = expand_from k a ++ expand_from (k + N.of_nat (length a)) b.
Proof.
  induction a as [|st a IH]; intros k b; cbn [app expand_from length].
  - replace (k + N.of_nat 0) with k by lia. reflexivity.
  - rewrite IH, <- app_assoc. replace (k + 1 + N.of_nat (length a)) with (k + N.of_nat (S (length a))) by lia. reflexivity.
Qed.

Definition names_ops (names : list (N * N)) : list mop :=
  flat_map (fun oa => [MEnsureSub (fst oa); MImportName (fst oa) (snd oa)]) names.

Lemma names_ops_app a b : names_ops (a ++ b) = names_ops a ++ names_ops b.
Proof. unfold names_ops. apply flat_map_app. Qed.

Section MoveMachine.
  Variable p : project.
  Variables (R D ix xname n : N).
  Notation x := (D, ix, 0).
  Notation Rm := (R, 0, 0).
  Notation Dm := (D, 0, 0).
  Notation nm0 := (sname p).
  Notation par0 := (sparent p).
  Notation nmA := (nm1 p D ix n).
  Notation parA := (par1 p R D ix).
  Notation key0 := (key p nm0 par0).
  Notation keyA := (key p nmA parA).

  Hypothesis Hwf : parents_first p.
  Hypothesis H0 : keys_distinct p.
  Hypothesis H1 : forall o o', sobj p o <> None -> sobj p o' <> None -> keyA o = keyA o' -> o = o'.
  Hypothesis HRD : R <> D.
  Hypothesis Hix : ix <> 0.
  Hypothesis Hxdom : sobj p x <> None.
  Hypothesis Hxname : sname p x = xname.

  Variables (miR miD : modinfo) (spre spost : list stmt) (lvl : N) (mn : path) (npre npost : list (N * N)).
  Hypothesis HR_mod : modinfo_of p R = Some miR.
  Hypothesis HR_stmts : m_stmts miR = spre ++ SImportFrom lvl mn (npre ++ (xname, n) :: npost) :: spost.
  Hypothesis HR_once_names : forall oa, In oa (npre ++ npost) -> snd oa <> n.
  Hypothesis HR_once_stmts : forall lv m' nms oa, In (SImportFrom lv m' nms) (spre ++ spost) -> In oa nms -> snd oa <> n.
  Hypothesis HR_exp : In n (exports_of_mod miR).
  Hypothesis HR_res : static_modname p R lvl mn = Some (skey p Dm).
  Hypothesis HD_mod : modinfo_of p D = Some miD.
  Hypothesis HD_leaf : forall st, In st (m_stmts miD) -> local_stmt st = true.
  Hypothesis HD_all : forall a, last_all (m_stmts miD) None = Some a -> ~ In xname a.
  Hypothesis Honly : forall m mi st, modinfo_of p m = Some mi -> In st (m_stmts mi) ->
    match st with
    | SImportFrom _ _ nms => forall oa, In oa nms -> In (snd oa) (exports_of_mod mi) -> m = R /\ snd oa = n
    | SImportStar _ _ => exports_of_mod mi = []
    | _ => True
    end.

  Definition is_desig (op : mop) : bool := match op with MImportName _ a => N.eqb a n | _ => false end.
  Definition desig_in (l : list mop) : bool := existsb is_desig l.
  Definition dpendb (s : state) : bool :=
    memN R (unproc s) || existsb (fun fr => N.eqb (f_mod fr) R && desig_in (f_todo fr)) (frames s).

  (* the micro-operations of R around the designated import *)
  Definition PRE : list mop := expand_from 1 spre.
  Definition NPRE : list mop := names_ops npre.
  Definition REST : list mop := names_ops npost ++ expand_from (1 + N.of_nat (length spre) + 1) spost.
  Definition T1 : list mop := NPRE ++ MEnsureSub xname :: MImportName xname n :: REST.

  Lemma expand_R : expand_stmts (m_stmts miR) = PRE ++ MResolve lvl mn :: MEnsure :: T1.
  Proof.
    unfold expand_stmts. rewrite HR_stmts, expand_from_app. cbn [expand_from expand_stmt]. unfold PRE, T1, NPRE, REST.
    f_equal. cbn [app]. do 2 f_equal.
    change (flat_map (fun oa : N * N => [MEnsureSub (fst oa); MImportName (fst oa) (snd oa)]) (npre ++ (xname, n) :: npost))
      with (names_ops (npre ++ (xname, n) :: npost)).
    rewrite names_ops_app. rewrite <- app_assoc. f_equal.
  Qed.

  Lemma desig_in_app a b : desig_in (a ++ b) = desig_in a || desig_in b.
  Proof. unfold desig_in. apply existsb_app. Qed.

  Lemma desig_names_ops l : (forall oa, In oa l -> snd oa <> n) -> desig_in (names_ops l) = false.
  Proof.
    induction l as [|oa l IH]; intros H; cbn [names_ops flat_map]; [reflexivity|].
    change (desig_in ([MEnsureSub (fst oa); MImportName (fst oa) (snd oa)] ++ names_ops l) = false).
    rewrite desig_in_app, IH by (intros oa' Hin; apply H; right; exact Hin).
    cbn [desig_in existsb is_desig]. rewrite (proj2 (N.eqb_neq _ _) (H oa (or_introl eq_refl))). reflexivity.
  Qed.

  Lemma desig_expand_from l : forall k,
    (forall lv m' nms oa, In (SImportFrom lv m' nms) l -> In oa nms -> snd oa <> n) -> desig_in (expand_from k l) = false.
  Proof.
    induction l as [|st l IH]; intros k H; cbn [expand_from]; [reflexivity|].
    rewrite desig_in_app, IH by (intros lv m' nms oa Hin; apply (H lv m' nms oa); right; exact Hin). rewrite orb_false_r.
    destruct st; cbn [expand_stmt desig_in existsb is_desig]; try reflexivity.
    change (desig_in (names_ops names) = false). apply desig_names_ops.
    intros oa Hin. eapply (H level modname names oa); [left; reflexivity|exact Hin].
  Qed.

  Lemma desig_PRE : desig_in PRE = false.
  Proof. apply desig_expand_from. intros lv m' nms oa Hin. apply (HR_once_stmts lv m' nms oa). apply in_or_app. left. exact Hin. Qed.
  Lemma desig_NPRE : desig_in NPRE = false.
  Proof. apply desig_names_ops. intros oa Hin. apply HR_once_names. apply in_or_app. left. exact Hin. Qed.
  Lemma desig_REST : desig_in REST = false.
  Proof.
    unfold REST. rewrite desig_in_app. rewrite desig_names_ops by (intros oa Hin; apply HR_once_names; apply in_or_app; right; exact Hin).
    apply desig_expand_from. intros lv m' nms oa Hin. apply (HR_once_stmts lv m' nms oa). apply in_or_app. right. exact Hin.
  Qed.
  Lemma desig_T1 : desig_in T1 = true.
  Proof. unfold T1. rewrite desig_in_app. cbn [desig_in existsb is_desig]. rewrite N.eqb_refl, !orb_true_r. reflexivity. Qed.
  Lemma desig_expand_R : desig_in (expand_stmts (m_stmts miR)) = true.
  Proof. rewrite expand_R, desig_in_app. cbn [desig_in existsb is_desig]. fold (desig_in T1). rewrite desig_T1, !orb_true_r. reflexivity. Qed.

  (* the designated operation occurs once in T1 *)
  Lemma unique_split d l2 op t : forall l1 q,
    desig_in l1 = false -> desig_in l2 = false -> is_desig d = true ->
    l1 ++ d :: l2 = q ++ op :: t ->
    (is_desig op = true -> q = l1 /\ op = d /\ t = l2) /\ (desig_in t = true -> In op l1).
  Proof.
    induction l1 as [|a l1 IH]; intros q Hl1 Hl2 Hd E.
    - destruct q as [|a' q']; cbn [app] in E; inversion E; subst.
      + split; [auto|]. intros Ht. congruence.
      + rewrite desig_in_app in Hl2. cbn [desig_in existsb] in Hl2. fold (desig_in t) in Hl2.
        apply orb_false_iff in Hl2. destruct Hl2 as [_ Hl2]. apply orb_false_iff in Hl2. destruct Hl2 as [Ho Ht].
        split; [intros Hx; congruence|intros Hx; congruence].
    - cbn [desig_in existsb] in Hl1. fold (desig_in l1) in Hl1. apply orb_false_iff in Hl1. destruct Hl1 as [Ha Hl1].
      destruct q as [|a' q']; cbn [app] in E; inversion E; subst.
      + split; [intros Hx; congruence|intros _; left; reflexivity].
      + destruct (IH q' Hl1 Hl2 Hd H3) as [A B]. split.
        * intros Hx. destruct (A Hx) as (-> & -> & ->). auto.
        * intros Hx. right. apply B. exact Hx.
  Qed.

  Definition L1 : list mop := NPRE ++ [MEnsureSub xname].
  Lemma T1_eq : T1 = L1 ++ MImportName xname n :: REST.
  Proof. unfold T1, L1. rewrite <- app_assoc. reflexivity. Qed.
  Lemma desig_L1 : desig_in L1 = false.
  Proof. unfold L1. rewrite desig_in_app, desig_NPRE. reflexivity. Qed.

  Lemma names_ops_kind l op : In op (names_ops l) -> (exists o, op = MEnsureSub o) \/ (exists o a, op = MImportName o a).
  Proof.
    induction l as [|oa l IH]; cbn [names_ops flat_map app In]; [tauto|].
    intros [<-|[<-|H]]; [left; eauto|right; eauto|apply IH; exact H].
  Qed.
  Lemma L1_kind op : In op L1 -> (exists o, op = MEnsureSub o) \/ (exists o a, op = MImportName o a).
  Proof.
    unfold L1. rewrite in_app_iff. intros [H|[<-|[]]]; [apply (names_ops_kind npre); exact H|left; eauto].
  Qed.

  Lemma T1_split q op t :
    T1 = q ++ op :: t ->
    (is_desig op = true -> op = MImportName xname n /\ desig_in t = false) /\
    (desig_in t = true -> is_desig op = false /\ ((exists o, op = MEnsureSub o) \/ (exists o a, op = MImportName o a))).
  Proof.
    intros E. rewrite T1_eq in E.
    assert (Hd : is_desig (MImportName xname n) = true) by (cbn; apply N.eqb_refl).
    destruct (unique_split _ _ _ _ L1 q desig_L1 desig_REST Hd E) as [A B]. split.
    - intros Hx. destruct (A Hx) as (_ & -> & ->). split; [reflexivity|apply desig_REST].
    - intros Hx. pose proof (B Hx) as Hin. split; [|apply L1_kind; exact Hin].
      destruct (is_desig op) eqn:Eo; [|reflexivity]. destruct (A eq_refl) as (_ & _ & ->). rewrite desig_REST in Hx. discriminate.
  Qed.

  (* a module without from-imports only has statement operations *)
  Lemma expand_local_only l : forall k, (forall st, In st l -> local_stmt st = true) ->
    forall op, In op (expand_from k l) -> exists i st, op = MStmt i st.
  Proof.
    induction l as [|st l IH]; intros k Hl op; cbn [expand_from]; [intros []|].
    rewrite in_app_iff. intros [H|H]; [|apply (IH (k + 1)); [intros st' Hin; apply Hl; right; exact Hin|exact H]].
    pose proof (Hl st (or_introl eq_refl)) as Hloc.
    destruct st; cbn [local_stmt] in Hloc; try discriminate; cbn [expand_stmt In] in H; destruct H as [<-|[]]; eauto.
  Qed.

  Notation Inv0 := (Inv p nm0 par0 GoodT).
  Definition Good1 (s : state) : Prop := created_of p s x.
  Notation InvA := (Inv p nmA parA Good1).

  Lemma staticA : forall s o, Good1 s -> sobj p o <> None -> ~ created_of p s o -> nmA o = sname p o /\ parA o = sparent p o.
  Proof.
    intros s o Hg _ Hnc. assert (Hne : o <> x) by (intros ->; contradiction).
    unfold nm1, par1. rewrite (oid_eqb_neq o x Hne). auto.
  Qed.

  (* ---- static resolution of the designated import (before the move) ---- *)
  Lemma up_parents_static s : Inv0 s -> forall k y, created_of p s y ->
    up_parents k s (Some y) = up_static p k (Some y) /\
    (forall q, up_static p k (Some y) = Some q -> created_of p s q).
  Proof.
    intros HI. pose proof (i_oa p _ _ _ s HI) as HA. induction k as [|k IH]; intros y Cy; cbn [up_parents up_static].
    - split; [reflexivity|]. intros q E. inversion E; subst. exact Cy.
    - destruct (objs s y) as [yb|] eqn:Ey; [|exfalso; apply (oa_exists _ _ _ _ _ HA) in Cy; congruence].
      pose proof (oa_dom _ _ _ _ _ HA y Cy) as Hd. destruct (sobj p y) as [si|] eqn:Es; [|congruence].
      destruct (oa_static _ _ _ _ _ HA y yb si Ey Es) as (_ & _ & _ & Hp & _). rewrite Hp.
      destruct (par0 y) as [q|] eqn:Eq.
      + apply IH. eapply (oa_closed _ _ _ _ _ HA); eassumption.
      + split; [|intros q E; destruct k; discriminate]. destruct k; reflexivity.
  Qed.

  Lemma resolve_static s :
    Inv0 s -> resolve_modname s R lvl mn = static_modname p R lvl mn.
  Proof.
    intros HI. pose proof (i_oa p _ _ _ s HI) as HA. unfold resolve_modname, static_modname.
    destruct (N.eqb lvl 0); [reflexivity|]. cbv zeta.
    pose proof (created_module p s R miR HR_mod) as CR.
    destruct (objs s Rm) as [rb|] eqn:Er; [|exfalso; apply (oa_exists _ _ _ _ _ HA) in CR; congruence].
    assert (Hs : sobj p Rm = Some {| s_tag := if m_pkg miR then T_PACKAGE else T_MODULE; s_kind := if m_pkg miR then K_PACKAGE else K_MODULE;
                                     s_name := m_name miR; s_parent := match m_parent miR with Some q => Some (q, 0, 0) | None => None end;
                                     s_doc := m_doc miR |}) by (unfold sobj; cbn [N.eqb]; rewrite HR_mod; reflexivity).
    destruct (oa_static _ _ _ _ _ HA Rm rb _ Er Hs) as (Ht & _). cbn [s_tag] in Ht.
    unfold tag_of. rewrite Er, Ht, HR_mod.
    assert (Hpk : N.eqb (if m_pkg miR then T_PACKAGE else T_MODULE) T_PACKAGE = m_pkg miR) by (destruct (m_pkg miR); reflexivity).
    rewrite Hpk.
    destruct (up_parents_static s HI (N.to_nat (if m_pkg miR then lvl - 1 else lvl)) Rm CR) as [E Hq].
    rewrite E.
    assert (Haux : forall u : option oid, (forall q, u = Some q -> created_of p s q) ->
                   match u with Some q => Some (full_name s q ++ mn) | None => None end =
                   match u with Some q => Some (skey p q ++ mn) | None => None end).
    { intros [q|] Hu; [|reflexivity]. rewrite (full_name_key p nm0 par0 _ s q HA (Hu q eq_refl)). reflexivity. }
    apply Haux. exact Hq.
  Qed.

  Lemma module_at_D nm' par' Good' s :
    Inv p nm' par' Good' s -> key p nm' par' Dm = skey p Dm -> module_at s (skey p Dm) = Some Dm.
  Proof.
    intros HI Hk. pose proof (i_oa p _ _ _ s HI) as HA. pose proof (i_or p _ _ _ s HI) as HR'.
    pose proof (created_module p s D miD HD_mod) as CD.
    unfold module_at. rewrite <- Hk, (or_complete _ _ _ _ _ HR' Dm CD).
    destruct (objs s Dm) as [db|] eqn:Ed; [|exfalso; apply (oa_exists _ _ _ _ _ HA) in CD; congruence].
    assert (Hs : sobj p Dm = Some {| s_tag := if m_pkg miD then T_PACKAGE else T_MODULE; s_kind := if m_pkg miD then K_PACKAGE else K_MODULE;
                                     s_name := m_name miD; s_parent := match m_parent miD with Some q => Some (q, 0, 0) | None => None end;
                                     s_doc := m_doc miD |}) by (unfold sobj; cbn [N.eqb]; rewrite HD_mod; reflexivity).
    destruct (oa_static _ _ _ _ _ HA Dm db _ Ed Hs) as (Ht & _). cbn [s_tag] in Ht.
    unfold tag_of. rewrite Ed, Ht. destruct (m_pkg miD); reflexivity.
  Qed.

  (* ---- the invariant with the two phases ----
     `ex` is the module (if any) whose processModule is about to start: getProcessedModule has been called for it. *)
  Inductive fvcase (ex : option N) (s : state) (fr : frame) : Prop :=
  | fv_before q : f_todo fr = q ++ MResolve lvl mn :: MEnsure :: T1 -> fvcase ex s fr
  | fv_resolved : f_todo fr = MEnsure :: T1 -> f_modname fr = Some (skey p Dm) -> fvcase ex s fr
  | fv_ensured q : T1 = q ++ f_todo fr -> f_modname fr = Some (skey p Dm) -> f_modobj fr = Some Dm ->
                   (~ In D (unproc s) \/ ex = Some D) -> fvcase ex s fr.

  Definition FV (ex : option N) (s : state) : Prop :=
    forall fr, In fr (frames s) -> f_mod fr = R -> desig_in (f_todo fr) = true -> fvcase ex s fr.

  Definition aliasD (s : state) : Prop := exists db, objs s Dm = Some db /\ nget xname (o_alias db) = Some (keyA x).
  Definition Dproc (s : state) : Prop := ~ In D (unproc s) /\ forall fr, In fr (frames s) -> f_mod fr <> D.

  Record Inv2x (ex : option N) (s : state) : Prop := {
    i2_p0 : dpendb s = true -> Inv0 s;
    i2_p1 : dpendb s = false -> InvA s /\ aliasD s /\ Dproc s;
    i2_dtop : forall fr, In fr (tl (frames s)) -> f_mod fr <> D;
    i2_fv : FV ex s }.
  Notation Inv2 := (Inv2x None).

  Lemma Inv2_ctl ex s : Inv2x ex s -> Ctl p s.
  Proof.
    intros H. destruct (dpendb s) eqn:E; [exact (i_ctl p _ _ _ s (i2_p0 ex s H E))|].
    destruct (i2_p1 ex s H E) as (HI & _). exact (i_ctl p _ _ _ s HI).
  Qed.
  Lemma Inv2_suffix ex s fr : Inv2x ex s -> In fr (frames s) ->
    exists mi pre, modinfo_of p (f_mod fr) = Some mi /\ expand_stmts (m_stmts mi) = pre ++ f_todo fr.
  Proof.
    intros H. destruct (dpendb s) eqn:E; [exact (i_suffix p _ _ _ s (i2_p0 ex s H E) fr)|].
    destruct (i2_p1 ex s H E) as (HI & _). exact (i_suffix p _ _ _ s HI fr).
  Qed.

  Lemma fvcase_mono ex ex' s s' fr :
    (forall m, In m (unproc s') -> In m (unproc s)) -> (ex = Some D -> ex' = Some D \/ ~ In D (unproc s')) ->
    fvcase ex s fr -> fvcase ex' s' fr.
  Proof.
    intros Hsub Hex [q E|E1 E2|q E1 E2 E3 E4]; [eapply fv_before; eassumption|apply fv_resolved; assumption|].
    eapply fv_ensured; try eassumption. destruct E4 as [E4|E4].
    - left. intros Hin. apply E4. apply Hsub. exact Hin.
    - destruct (Hex E4) as [E5|E5]; [right; exact E5|left; exact E5].
  Qed.

  (* frames of D only hold statement operations *)
  Lemma D_frame_stmts ex s fr : Inv2x ex s -> In fr (frames s) -> f_mod fr = D ->
    forall op, In op (f_todo fr) -> exists i st, op = MStmt i st.
  Proof.
    intros H Hin Hm op Hop. destruct (Inv2_suffix ex s fr H Hin) as (mi & pre & Hmi & He). rewrite Hm, HD_mod in Hmi.
    inversion Hmi; subst mi. apply (expand_local_only (m_stmts miD) 1 HD_leaf). fold (expand_stmts (m_stmts miD)).
    rewrite He. apply in_or_app. right. exact Hop.
  Qed.

  (* ---- processModule starts: the phase does not change ---- *)
  Lemma memN_remove1 a m u : a <> m -> memN a (remove1 m u) = memN a u.
  Proof.
    intros Hne. induction u as [|y u IH]; cbn [remove1 memN]; [reflexivity|].
    destruct (N.eqb_spec y m) as [->|Hy]; cbn [memN].
    - destruct (N.eqb_spec m a); [congruence|reflexivity].
    - rewrite IH. reflexivity.
  Qed.

  Lemma dpendb_begin s m s' : begin_module p s m = Next s' -> dpendb s' = dpendb s.
  Proof.
    intros Hb. destruct (begin_module_ctl p _ _ _ Hb) as (mi & Hmi & Hmst & Hin & Hun & Hfr & _).
    unfold dpendb. rewrite Hun, Hfr. cbn [existsb f_mod f_todo].
    destruct (N.eq_dec m R) as [->|Hne].
    - rewrite HR_mod in Hmi. inversion Hmi; subst mi. rewrite N.eqb_refl. fold (desig_in (expand_stmts (m_stmts miR))).
      rewrite desig_expand_R. cbn [andb]. rewrite orb_true_r. apply memN_In in Hin. rewrite Hin. reflexivity.
    - rewrite (memN_remove1 R m (unproc s)) by congruence. rewrite (proj2 (N.eqb_neq m R) Hne). reflexivity.
  Qed.

  Lemma begin_objs_other s m s' o : begin_module p s m = Next s' -> o <> (m, 0, 0) -> objs s' o = objs s o.
  Proof.
    intros Hb Hne. destruct (begin_module_inv p _ _ _ Hb) as (mi & _ & _ & _ & ->). cbn [set_frames objs].
    match goal with |- objs (upd_obj ?s0 _ ?f) o = _ => destruct (objs s0 (m, 0, 0)) as [mb|] eqn:E; [rewrite (upd_obj_some s0 _ f mb E)|rewrite (upd_obj_none s0 _ f E)] end.
    - rewrite objs_set_obj_other by exact Hne. reflexivity.
    - reflexivity.
  Qed.

  Lemma Inv2_begin s m s' :
    Inv2x (Some m) s -> begin_module p s m = Next s' -> (forall fr, In fr (frames s) -> f_mod fr <> D) -> Inv2 s'.
  Proof.
    intros H Hb HnoD. pose proof (dpendb_begin s m s' Hb) as Hph.
    destruct (begin_module_ctl p _ _ _ Hb) as (mi & Hmi & Hmst & Hin & Hun & Hfr & _).
    assert (Hnd : NoDup (unproc s)) by apply (c_nodup p s (Inv2_ctl _ s H)).
    constructor.
    - intros E. rewrite Hph in E. eapply Inv_begin; [exact (i2_p0 _ s H E)|exact Hb|exact I].
    - intros E. rewrite Hph in E. destruct (i2_p1 _ s H E) as (HI & (db & Ed & Ea) & (HDu & HDf)).
      assert (HmD : m <> D) by (intros ->; contradiction).
      split; [|split].
      + eapply Inv_begin; [exact HI|exact Hb|].
        apply (created_begin p s m s' (i_ctl p _ _ _ s HI) Hb). exact (i_good p _ _ _ s HI).
      + exists db. rewrite (begin_objs_other s m s' Dm Hb) by (intros E'; inversion E'; congruence). auto.
      + split.
        * rewrite Hun. intros Hx. apply (remove1_In_iff m (unproc s) D Hnd) in Hx. tauto.
        * intros fr. rewrite Hfr. intros [<-|Hf]; [cbn [f_mod]; exact HmD|apply HDf; exact Hf].
    - rewrite Hfr. cbn [tl]. exact HnoD.
    - intros fr. rewrite Hfr. intros [<-|Hf] Hm Hd; cbn [f_mod f_todo] in *.
      + subst m. rewrite HR_mod in Hmi. inversion Hmi; subst mi. apply (fv_before _ _ _ PRE). cbn [f_todo]. apply expand_R.
      + eapply fvcase_mono; [| |apply (i2_fv _ s H fr Hf Hm Hd)].
        * rewrite Hun. intros a Ha. apply (remove1_In_iff m (unproc s) a Hnd) in Ha. tauto.
        * intros E. inversion E; subst m. right. rewrite Hun. intros Hx. apply (remove1_In_iff D (unproc s) D Hnd) in Hx. tauto.
  Qed.

  Lemma Inv2_weaken ex s : Inv2 s -> Inv2x ex s.
  Proof.
    intros [A B C' F]. constructor; try assumption. intros fr Hf Hm Hd.
    eapply fvcase_mono; [| |apply (F fr Hf Hm Hd)]; [auto|discriminate].
  Qed.

  (* ---- processModule ends ---- *)
  Lemma Inv2_finish s fr rest :
    Inv2 s -> frames s = fr :: rest -> f_todo fr = [] ->
    Ctl p (set_frames (set_mst s (f_mod fr) PROCESSED) rest) ->
    Inv2 (set_frames (set_mst s (f_mod fr) PROCESSED) rest).
  Proof.
    intros H Hf Ht HC'. set (s' := set_frames (set_mst s (f_mod fr) PROCESSED) rest).
    assert (Hph : dpendb s' = dpendb s).
    { unfold dpendb, s'. cbn [set_frames set_mst unproc frames]. rewrite Hf. cbn [existsb]. rewrite Ht.
      cbn [desig_in existsb]. rewrite andb_false_r. reflexivity. }
    constructor.
    - intros E. rewrite Hph in E. apply Inv_finish; [exact (i2_p0 _ s H E)|exact Hf|exact Ht|exact HC'|exact I].
    - intros E. rewrite Hph in E. destruct (i2_p1 _ s H E) as (HI & HAl & (HDu & HDf)). split; [|split].
      + apply Inv_finish; [exact HI|exact Hf|exact Ht|exact HC'|].
        apply (created_finish p s fr rest Hf Ht). exact (i_good p _ _ _ s HI).
      + exact HAl.
      + split; [exact HDu|]. intros fr0 Hin. apply HDf. rewrite Hf. right. exact Hin.
    - intros fr0 Hin. apply (i2_dtop _ s H). rewrite Hf. cbn [tl]. unfold s' in Hin. cbn [set_frames frames] in Hin.
      destruct rest; [destruct Hin|right; exact Hin].
    - intros fr0 Hin Hm Hd. eapply fvcase_mono; [| |apply (i2_fv _ s H fr0); [rewrite Hf; right; exact Hin|exact Hm|exact Hd]]; [auto|discriminate].
  Qed.

  (* ---- one micro-operation that is not the designated import ---- *)
  Definition ensure_target (s : state) (en : option oid) : option N :=
    match en with
    | Some o => match mst s (fst (fst o)) with UNPROCESSED => Some (fst (fst o)) | _ => None end
    | None => None
    end.

  Lemma ensure_alt s en :
    ensure p s en = match ensure_target s en with Some m => begin_module p s m | None => Next s end.
  Proof. unfold ensure, ensure_target. destruct en as [o|]; [|reflexivity]. destruct (mst s (fst (fst o))); reflexivity. Qed.

  Lemma desig_frame_phase0 ex s fr : Inv2x ex s -> In fr (frames s) -> f_mod fr = R -> desig_in (f_todo fr) = true -> dpendb s = true.
  Proof.
    intros _ Hin Hm Hd. unfold dpendb. apply orb_true_iff. right. apply existsb_exists. exists fr. split; [exact Hin|].
    rewrite Hm, N.eqb_refl, Hd. reflexivity.
  Qed.

  Lemma Inv2_other s fr rest op todo s1 fr1 en :
    Inv2 s -> frames s = fr :: rest -> f_todo fr = op :: todo ->
    exec_op s (with_todo todo fr) op = (s1, fr1, en) ->
    N.eqb (f_mod fr) R && is_desig op = false ->
    Inv2x (ensure_target (set_frames s1 (fr1 :: rest)) en) (set_frames s1 (fr1 :: rest)) /\ (en <> None -> f_mod fr <> D).
  Proof.
    intros H Hf Ht He Hnd. set (s2 := set_frames s1 (fr1 :: rest)).
    pose proof (Inv2_ctl _ s H) as HC. pose proof (Ctl_op p s fr rest op todo s1 fr1 en HC Hf He) as HC2. fold s2 in HC2.
    pose proof (ctl_exec_op s (with_todo todo fr) op) as Hctl. pose proof (exec_op_frame s (with_todo todo fr) op) as Hfr.
    rewrite He in Hctl, Hfr. cbn [fst snd] in Hctl, Hfr. destruct Hfr as (Hfm & Hft). cbn [with_todo f_mod f_todo] in Hfm, Hft.
    destruct (Inv2_suffix _ s fr H ltac:(rewrite Hf; left; reflexivity)) as (mi & pre & Hmi & Hexp). rewrite Ht in Hexp.
    assert (Hph : dpendb s2 = dpendb s).
    { unfold dpendb, s2. cbn [set_frames unproc frames]. destruct Hctl as (_ & -> & _). rewrite Hf. cbn [existsb].
      rewrite Hfm, Hft, Ht. cbn [desig_in existsb]. fold (desig_in todo).
      destruct (N.eqb (f_mod fr) R); cbn [andb] in *; [rewrite Hnd; reflexivity|reflexivity]. }
    assert (Hop_name : forall o a mi', op = MImportName o a -> modinfo_of p (f_mod fr) = Some mi' -> ~ In a (exports_of_mod mi')).
    { intros o a mi' Hop Hmi' Hin. rewrite Hmi in Hmi'. inversion Hmi'; subst mi'.
      assert (Hx : In (MImportName o a) (expand_stmts (m_stmts mi))) by (rewrite Hexp, Hop; apply in_or_app; right; left; reflexivity).
      destruct (In_expand_from_ImportName _ _ _ _ Hx) as (lv & m' & nms & Hst & Hoa).
      destruct (Honly _ mi _ Hmi Hst (o, a) Hoa Hin) as [E1 E2]. cbn [snd] in E2.
      rewrite E1, N.eqb_refl, Hop in Hnd. cbn [andb is_desig] in Hnd. rewrite E2, N.eqb_refl in Hnd. discriminate. }
    assert (Hop_all : forall mi', op = MImportAll -> modinfo_of p (f_mod fr) = Some mi' -> exports_of_mod mi' = []).
    { intros mi' Hop Hmi'. rewrite Hmi in Hmi'. inversion Hmi'; subst mi'.
      assert (Hx : In MImportAll (expand_stmts (m_stmts mi))) by (rewrite Hexp, Hop; apply in_or_app; right; left; reflexivity).
      destruct (In_expand_from_ImportAll _ _ Hx) as (lv & m' & Hst). exact (Honly _ mi _ Hmi Hst). }
    assert (HenD : en <> None -> f_mod fr <> D).
    { intros Hen HmD. destruct (D_frame_stmts _ s fr H ltac:(rewrite Hf; left; reflexivity) HmD op ltac:(rewrite Ht; left; reflexivity)) as (i & st & ->).
      cbn [exec_op] in He. inversion He. congruence. }
    split; [|exact HenD]. constructor.
    - (* before the move *)
      intros E. rewrite Hph in E. pose proof (i2_p0 _ s H E) as HI.
      exact (Inv_op p nm0 par0 H0 GoodT (static0 p) s fr rest op todo s1 fr1 en HI Hf Ht He HC2 I Hop_name Hop_all).
    - (* after the move *)
      intros E. rewrite Hph in E. destruct (i2_p1 _ s H E) as (HI & (db & Ed & Ea) & (HDu & HDf)).
      assert (HmD : f_mod fr <> D) by (apply HDf; rewrite Hf; left; reflexivity).
      assert (HG2 : Good1 s2).
      { apply (created_after p nmA parA Good1 s fr rest op todo s1 fr1 HI Hf Ht Hctl Hfm Hft). left. exact (i_good p _ _ _ s HI). }
      split; [|split].
      + exact (Inv_op p nmA parA H1 Good1 staticA s fr rest op todo s1 fr1 en HI Hf Ht He HC2 HG2 Hop_name Hop_all).
      + destruct (op_triple p nmA parA H1 Good1 staticA s fr rest op todo s1 fr1 en HI Hf Ht He Hop_name Hop_all) as (_ & _ & M).
        destruct (M Dm db Ed) as (db' & Ed' & _ & _ & Hal). exists db'. split; [exact Ed'|].
        rewrite Hal; [exact Ea|]. intros E'. inversion E'. congruence.
      + split.
        * unfold s2. cbn [set_frames unproc]. destruct Hctl as (_ & -> & _). exact HDu.
        * intros fr0. unfold s2. cbn [set_frames frames]. intros [<-|Hin]; [rewrite Hfm; exact HmD|apply HDf; rewrite Hf; right; exact Hin].
    - intros fr0 Hin. apply (i2_dtop _ s H). rewrite Hf. exact Hin.
    - (* the local variables of the frames of R *)
      intros fr0. unfold s2 at 1. cbn [set_frames frames]. intros [<-|Hin] Hm Hd.
      + rewrite Hfm in Hm. rewrite Hft in Hd.
        assert (Hd' : desig_in (f_todo fr) = true) by (rewrite Ht; cbn [desig_in existsb]; fold (desig_in todo); rewrite Hd; apply orb_true_r).
        assert (Hin0 : In fr (frames s)) by (rewrite Hf; left; reflexivity).
        pose proof (desig_frame_phase0 _ s fr H Hin0 Hm Hd') as Hp0. pose proof (i2_p0 _ s H Hp0) as HI.
        destruct (i2_fv _ s H fr Hin0 Hm Hd') as [q Eq|E1 E2|q E1 E2 E3 E4].
        * rewrite Ht in Eq. destruct q as [|op0 q']; cbn [app] in Eq; injection Eq as Eop Etodo.
          -- (* MResolve *)
             rewrite Eop in He. cbn [exec_op] in He.
             assert (Hfr1 : fr1 = with_modvars (resolve_modname s (f_mod (with_todo todo fr)) lvl mn) None (with_todo todo fr))
               by congruence.
             rewrite Hfr1. apply fv_resolved; [cbn [with_modvars with_todo f_todo]; exact Etodo|].
             cbn [with_modvars f_modname with_todo f_mod]. rewrite Hm, (resolve_static s HI). exact HR_res.
          -- apply (fv_before _ _ _ q'). rewrite Hft. exact Etodo.
        * rewrite Ht in E1. injection E1 as Eop Etodo. rewrite Eop in He. cbn [exec_op] in He.
          change (f_modname (with_todo todo fr)) with (f_modname fr) in He. rewrite E2 in He.
          rewrite (module_at_D nm0 par0 GoodT s HI eq_refl) in He.
          assert (Hfr1 : fr1 = with_modvars (Some (skey p Dm)) (Some Dm) (with_todo todo fr)) by congruence.
          assert (Hen1 : en = Some Dm) by congruence.
          rewrite Hfr1, Hen1.
          apply (fv_ensured _ _ _ []); [cbn [with_modvars with_todo f_todo app]; symmetry; exact Etodo|reflexivity|reflexivity|].
          unfold ensure_target. cbn [fst]. destruct (mst s2 D) eqn:Em; [right; reflexivity| |];
            left; intros Hx; apply (c_unproc p s2 HC2) in Hx; destruct Hx as [_ Hx]; congruence.
        * rewrite Ht in E1. destruct (T1_split q op todo E1) as [_ B]. destruct (B Hd) as [Hnd' Hk].
          assert (Hfr1 : fr1 = with_todo todo fr /\ unproc s1 = unproc s).
          { split; [|destruct Hctl as (_ & Hu & _); exact Hu]. destruct Hk as [(o & ->)|(o & a & ->)]; cbn [exec_op] in He.
            - destruct (f_modname (with_todo todo fr)); [|inversion He; reflexivity].
              destruct (f_modobj (with_todo todo fr)) as [mo|]; [|inversion He; reflexivity].
              destruct (tag_of s mo) as [tg|]; [|inversion He; reflexivity]. destruct (N.eqb tg T_PACKAGE); inversion He; reflexivity.
            - destruct (f_modname (with_todo todo fr)); inversion He; reflexivity. }
          destruct Hfr1 as [-> Hu].
          apply (fv_ensured _ _ _ (q ++ [op])); [rewrite <- app_assoc; exact E1|exact E2|exact E3|].
          left. unfold s2. cbn [set_frames unproc]. rewrite Hu. destruct E4 as [E4|E4]; [exact E4|discriminate].
      + eapply fvcase_mono; [| |apply (i2_fv _ s H fr0); [rewrite Hf; right; exact Hin|exact Hm|exact Hd]].
        * unfold s2. cbn [set_frames unproc]. destruct Hctl as (_ & -> & _). auto.
        * discriminate.
  Qed.

  (* ---- the designated import: the move ---- *)
  Lemma existsb_rest_false s fr rest :
    Ctl p s -> frames s = fr :: rest -> f_mod fr = R ->
    existsb (fun fr0 => N.eqb (f_mod fr0) R && desig_in (f_todo fr0)) rest = false.
  Proof.
    intros HC Hf Hm. pose proof (c_fnodup p s HC) as Hnd. rewrite Hf in Hnd. cbn [map] in Hnd. apply NoDup_cons_iff in Hnd.
    destruct Hnd as [Hni _]. destruct (existsb _ rest) eqn:E; [|reflexivity]. exfalso.
    apply existsb_exists in E. destruct E as (fr0 & Hin & Hx). apply andb_true_iff in Hx. destruct Hx as [Hx _].
    apply N.eqb_eq in Hx. apply Hni. rewrite Hm, <- Hx. apply in_map. exact Hin.
  Qed.

  Lemma Inv2_desig s fr rest op todo s1 fr1 en :
    Inv2 s -> frames s = fr :: rest -> f_todo fr = op :: todo ->
    exec_op s (with_todo todo fr) op = (s1, fr1, en) ->
    f_mod fr = R -> is_desig op = true ->
    en = None /\ Inv2 (set_frames s1 (fr1 :: rest)) /\ meta_weak Dm s s1.
  Proof.
    intros H Hf Ht He Hm Hd. set (s2 := set_frames s1 (fr1 :: rest)).
    pose proof (Inv2_ctl _ s H) as HC. pose proof (Ctl_op p s fr rest op todo s1 fr1 en HC Hf He) as HC2. fold s2 in HC2.
    assert (Hin0 : In fr (frames s)) by (rewrite Hf; left; reflexivity).
    assert (Hd' : desig_in (f_todo fr) = true) by (rewrite Ht; cbn [desig_in existsb]; rewrite Hd; reflexivity).
    pose proof (i2_p0 _ s H (desig_frame_phase0 _ s fr H Hin0 Hm Hd')) as HI.
    pose proof (i_oa p _ _ _ s HI) as HA. pose proof (i_or p _ _ _ s HI) as HR'.
    destruct (i_suffix p _ _ _ s HI fr Hin0) as (mi & pre & Hmi & Hexp). rewrite Hm, HR_mod in Hmi. inversion Hmi; subst mi.
    rewrite Ht in Hexp.
    (* where the walk of R stands *)
    assert (Hcase : exists q, T1 = q ++ op :: todo /\ f_modname fr = Some (skey p Dm) /\ f_modobj fr = Some Dm /\ ~ In D (unproc s)).
    { destruct (i2_fv _ s H fr Hin0 Hm Hd') as [q Eq|E1 E2|q E1 E2 E3 E4].
      - exfalso. rewrite Ht in Eq. rewrite expand_R, Eq in Hexp.
        assert (Hq : PRE = pre ++ q).
        { apply (app_inv_tail (MResolve lvl mn :: MEnsure :: T1)). rewrite <- app_assoc. exact Hexp. }
        destruct q as [|op0 q']; cbn [app] in Eq; injection Eq as Eop _.
        + rewrite Eop in Hd. discriminate.
        + pose proof desig_PRE as HP. rewrite Hq, desig_in_app in HP. cbn [desig_in existsb] in HP. rewrite <- Eop, Hd in HP.
          rewrite orb_true_r in HP. discriminate.
      - exfalso. rewrite Ht in E1. injection E1 as Eop _. rewrite Eop in Hd. discriminate.
      - exists q. rewrite Ht in E1. repeat split; try assumption. destruct E4 as [E4|E4]; [exact E4|discriminate]. }
    destruct Hcase as (q & ET & Emn & Emo & HDu).
    destruct (T1_split q op todo ET) as [A _]. destruct (A Hd) as [Eop Htodo].
    (* the operation *)
    rewrite Eop in He. cbn [exec_op] in He. change (f_modname (with_todo todo fr)) with (f_modname fr) in He.
    change (f_modobj (with_todo todo fr)) with (f_modobj fr) in He. change (f_mod (with_todo todo fr)) with (f_mod fr) in He.
    rewrite Emn, Emo, Hm in He.
    assert (Hen : en = None) by congruence.
    assert (Hfr1 : fr1 = with_todo todo fr) by congruence.
    assert (Hs1 : s1 = import_name s R (skey p Dm) (Some Dm) xname n) by congruence.
    split; [exact Hen|].
    (* the objects involved *)
    pose proof (created_module p s R miR HR_mod) as CR. pose proof (created_module p s D miD HD_mod) as CD.
    assert (HRu : ~ In R (unproc s)).
    { rewrite <- Hm. exact (op_not_unproc p nm0 par0 GoodT s fr rest HI Hf). }
    assert (Cx : created_of p s x).
    { split; [exact Hxdom|right]. cbn [fst snd]. intros [Hp|(fr0 & st & Hin & Hmd & _)]; [contradiction|].
      rewrite Hf in Hin. destruct Hin as [<-|Hin]; [congruence|]. apply (i2_dtop _ s H fr0); [rewrite Hf; exact Hin|exact Hmd]. }
    destruct (objs s Rm) as [rb|] eqn:Er; [|exfalso; apply (oa_exists _ _ _ _ _ HA) in CR; congruence].
    destruct (objs s Dm) as [db|] eqn:Ed; [|exfalso; apply (oa_exists _ _ _ _ _ HA) in CD; congruence].
    assert (Hexports : exports_of s Rm = exports_of_mod miR) by exact (exports_static p nm0 par0 GoodT s R miR rb HI HR_mod HRu Er).
    assert (Hcont : nget xname (contents_of s Dm) = Some x).
    { destruct (oa_complete _ _ _ _ _ HA x Dm Cx (sparent_x p D ix Hix Hxdom)) as (db' & Ed' & Hg).
      rewrite Ed in Ed'. inversion Ed'; subst db'. unfold contents_of. rewrite Ed, <- Hxname. exact Hg. }
    assert (Hlisted : match o_all db with Some a => memN xname a | None => false end = false).
    { destruct (i_meta p _ _ _ s HI D db miD Ed HD_mod) as [_ B]. destruct (B HDu) as [_ Hall]. rewrite Hall.
      pose proof HD_all as HDa. destruct (last_all (m_stmts miD) None) as [a|]; [|reflexivity]. apply memN_false. exact (HDa a eq_refl). }
    assert (Hs1' : s1 = reparent s x Rm n).
    { rewrite Hs1. unfold import_name. cbv zeta. rewrite Hexports. unfold handle_reexport.
      assert (Hxpar : exists xb, objs s x = Some xb /\ o_parent xb = Some Dm).
      { destruct (objs s x) as [xb|] eqn:Ex; [|exfalso; apply (oa_exists _ _ _ _ _ HA) in Cx; congruence].
        assert (Hsx : exists six, sobj p x = Some six) by (destruct (sobj p x); [eauto|congruence]).
        destruct Hsx as (six & Esx). destruct (oa_static _ _ _ _ _ HA x xb six Ex Esx) as (_ & _ & _ & Hp & _).
        rewrite (sparent_x p D ix Hix Hxdom) in Hp. eauto. }
      destruct Hxpar as (xb & Ex & Hxp).
      rewrite (proj2 (memN_In n (exports_of_mod miR)) HR_exp), Hcont, Ex, Hxp, Ed, Hlisted. reflexivity. }
    destruct (reparent_move p R D ix xname n H0 H1 HRD Hix Hxdom Hxname (created_of p s) s HA HR' Cx CR CD)
      as (A1 & R1 & M1 & (db' & Ed' & Ea') & Hctl).
    rewrite <- Hs1' in A1, R1, M1, Ed', Hctl.
    assert (Hfm : f_mod fr1 = f_mod fr) by (rewrite Hfr1; reflexivity).
    assert (Hft : f_todo fr1 = todo) by (rewrite Hfr1; reflexivity).
    assert (Hcr : forall o, created_of p s o <-> created_of p s2 o).
    { intros o. unfold s2. rewrite (created_after p nm0 par0 GoodT s fr rest op todo s1 fr1 HI Hf Ht Hctl Hfm Hft o).
      split; [auto|]. intros [Hc|(_ & _ & _ & st & Hop)]; [exact Hc|]. rewrite Eop in Hop. discriminate. }
    assert (HIA : InvA s2).
    { apply (Inv_cross p nm0 par0 GoodT nmA parA Good1 s fr rest op todo s1 fr1 Dm HI Hf Ht Hctl Hfm Hft HC2).
      - apply Hcr. exact Cx.
      - eapply OA_ext; [exact Hcr|exact A1].
      - eapply OR_ext; [exact Hcr|exact R1].
      - exact M1. }
    assert (Hph : dpendb s2 = false).
    { unfold dpendb, s2. cbn [set_frames unproc frames existsb]. destruct Hctl as (_ & -> & _).
      rewrite (proj2 (memN_false R (unproc s)) HRu), Hfm, Hft, Htodo, andb_false_r.
      rewrite (existsb_rest_false s fr rest HC Hf Hm). reflexivity. }
    split; [|exact M1]. constructor.
    - intros E. rewrite Hph in E. discriminate.
    - intros _. split; [exact HIA|]. split; [exists db'; split; [exact Ed'|exact Ea']|]. split.
      + unfold s2. cbn [set_frames unproc]. destruct Hctl as (_ & -> & _). exact HDu.
      + intros fr0. unfold s2. cbn [set_frames frames]. intros [<-|Hin]; [rewrite Hfm, Hm; exact HRD|].
        apply (i2_dtop _ s H fr0). rewrite Hf. exact Hin.
    - intros fr0 Hin. apply (i2_dtop _ s H fr0). rewrite Hf. exact Hin.
    - intros fr0. unfold s2. cbn [set_frames frames]. intros [<-|Hin] Hm0 Hd0.
      + rewrite Hft, Htodo in Hd0. discriminate.
      + exfalso. pose proof (existsb_rest_false s fr rest HC Hf Hm) as Hx.
        assert (Hy : existsb (fun fr1 => N.eqb (f_mod fr1) R && desig_in (f_todo fr1)) rest = true).
        { apply existsb_exists. exists fr0. split; [exact Hin|]. rewrite Hm0, N.eqb_refl, Hd0. reflexivity. }
        congruence.
  Qed.

  (* ---- one step ---- *)
  Lemma Inv2_step s s' : Inv2 s -> step p s = Next s' -> Inv2 s'.
  Proof.
    intros H Hs. pose proof (Inv2_ctl _ s H) as HC. pose proof (Ctl_step p s s' HC Hs) as HC'.
    destruct (step_cases p _ _ Hs) as [(Hf & m & rest & Hu & Hb)|[(fr & rest & Hf & Ht & ->)|
      (fr & rest & op & todo & s1 & fr1 & en & Hf & Ht & He & Hen)]].
    - apply (Inv2_begin s m s' (Inv2_weaken _ s H) Hb). rewrite Hf. intros fr [].
    - apply Inv2_finish; assumption.
    - destruct (N.eqb (f_mod fr) R && is_desig op) eqn:Ed.
      + apply andb_true_iff in Ed. destruct Ed as [Em Ed]. apply N.eqb_eq in Em.
        destruct (Inv2_desig s fr rest op todo s1 fr1 en H Hf Ht He Em Ed) as (-> & H2 & _). cbn [ensure] in Hen.
        inversion Hen; subst s'. exact H2.
      + destruct (Inv2_other s fr rest op todo s1 fr1 en H Hf Ht He Ed) as [H2 HnD].
        rewrite ensure_alt in Hen. destruct (ensure_target (set_frames s1 (fr1 :: rest)) en) as [m|] eqn:Et.
        * apply (Inv2_begin _ m s' H2 Hen). cbn [set_frames frames]. intros fr0 [<-|Hin].
          -- pose proof (exec_op_frame s (with_todo todo fr) op) as Hfr. rewrite He in Hfr. cbn [fst snd] in Hfr.
             destruct Hfr as [Hfm _]. rewrite Hfm. apply HnD. intros ->. discriminate.
          -- apply (i2_dtop _ s H fr0). rewrite Hf. exact Hin.
        * inversion Hen; subst s'. exact H2.
  Qed.

  (* ---- the run ---- *)
  Lemma Inv2_modules_valid s : Inv2 s -> modules_valid p s.
  Proof.
    intros H. destruct (dpendb s) eqn:E; [exact (Inv_modules_valid p _ _ _ s (i2_p0 _ s H E))|].
    destruct (i2_p1 _ s H E) as (HI & _). exact (Inv_modules_valid p _ _ _ s HI).
  Qed.

  Lemma run_machine_ok2 fuel : forall s,
    Inv2 s -> (mu p s < fuel)%nat ->
    exists s', run_machine p fuel s = Ok s' /\ Inv2 s' /\ frames s' = [] /\ unproc s' = [].
  Proof.
    induction fuel as [|f IH]; intros s HI Hlt; [lia|]. cbn [run_machine].
    destruct (step p s) as [s1| |k] eqn:Es.
    - apply IH; [eapply Inv2_step; eassumption|]. pose proof (step_mu p _ _ Es). lia.
    - exists s. destruct (step_halt p s Es). auto.
    - exfalso. exact (step_not_stuck p s k (Inv2_ctl _ s HI) (Inv2_modules_valid s HI) Es).
  Qed.

  Lemma Inv2_init sigma : Permutation sigma (module_ids p) -> Inv2 (init_state p sigma).
  Proof.
    intros Hperm. pose proof (Inv_init p H0 Hwf sigma Hperm) as HI.
    assert (Hfr : frames (init_state p sigma) = []).
    { unfold init_state. cbn [set_unproc frames]. rewrite frames_add_modules. reflexivity. }
    assert (Hph : dpendb (init_state p sigma) = true).
    { unfold dpendb. apply orb_true_iff. left. apply memN_In. unfold init_state. cbn [set_unproc unproc].
      eapply Permutation_in; [apply Permutation_sym; exact Hperm|]. apply module_ids_In. rewrite HR_mod. discriminate. }
    constructor.
    - intros _. exact HI.
    - intros E. rewrite Hph in E. discriminate.
    - rewrite Hfr. intros fr [].
    - intros fr. rewrite Hfr. intros [].
  Qed.

  (* the registry at the end of the run: the static one, with x and what is below it under R.n *)
  Theorem moved_static sigma :
    Permutation sigma (module_ids p) ->
    exists s, run_state p sigma = Ok s /\
      (forall k e, reg_entry s k = Some e <->
                   exists o si, sobj p o = Some si /\ keyA o = k /\ e = (s_tag si, s_kind si, s_doc si)) /\
      (exists names, contents_view s (skey p Dm) = Some names /\ ~ In xname names) /\
      (exists names, contents_view s (skey p Rm) = Some names /\ In n names) /\
      alias_view s (skey p Dm) xname = Some (keyA x).
  Proof.
    intros Hperm. unfold run_state.
    destruct (run_machine_ok2 (run_fuel p) (init_state p sigma) (Inv2_init sigma Hperm) (init_mu p sigma Hperm))
      as (s & Hrun & H2 & Hfr & Hun).
    exists s. split; [exact Hrun|].
    assert (Hph : dpendb s = false) by (unfold dpendb; rewrite Hfr, Hun; reflexivity).
    destruct (i2_p1 _ s H2 Hph) as (HI & (db & Ed & Ea) & _).
    pose proof (i_oa p _ _ _ s HI) as HA. pose proof (i_or p _ _ _ s HI) as HR'.
    assert (Hcr : forall o, created_of p s o <-> sobj p o <> None).
    { intros o. unfold created_of, pending_of. rewrite Hfr, Hun. split; [tauto|]. intros Hd. split; [exact Hd|]. right.
      intros [[]|(fr & st & [] & _)]. }
    assert (Hinfo : forall o ob si, objs s o = Some ob -> sobj p o = Some si ->
                                    (o_tag ob, o_kind ob, o_doc ob) = (s_tag si, s_kind si, s_doc si)).
    { intros o ob si Ho Hs. destruct (oa_static _ _ _ _ _ HA o ob si Ho Hs) as (T & K & _ & _ & Dc).
      rewrite T, K. f_equal. destruct o as [[m i] j]. cbn [fst snd] in Dc.
      destruct (N.eq_dec i 0) as [->|Hi]; [|apply Dc; exact Hi].
      unfold sobj in Hs. cbn [N.eqb] in Hs. destruct (N.eqb j 0) eqn:Ej; [|discriminate]. apply N.eqb_eq in Ej. subst j.
      destruct (modinfo_of p m) as [mi|] eqn:Em; [|discriminate]. inversion Hs; subst si. cbn [s_doc].
      destruct (i_meta p _ _ _ s HI m ob mi Ho Em) as [_ B]. rewrite Hun in B. destruct (B (fun z => z)) as [-> _]. reflexivity. }
    assert (HkD : keyA Dm = skey p Dm) by (apply (key1_nonsub p R D ix n Hix); apply Dm_nonsub; exact Hix).
    assert (HkR : keyA Rm = skey p Rm) by (apply (key1_nonsub p R D ix n Hix); apply Rm_nonsub; exact HRD).
    pose proof (created_module p s D miD HD_mod) as CD. pose proof (created_module p s R miR HR_mod) as CR.
    assert (Cx : created_of p s x) by (apply Hcr; exact Hxdom).
    assert (HgD : pget (skey p Dm) (allobjs s) = Some Dm) by (rewrite <- HkD; apply (or_complete _ _ _ _ _ HR'); exact CD).
    assert (HgR : pget (skey p Rm) (allobjs s) = Some Rm) by (rewrite <- HkR; apply (or_complete _ _ _ _ _ HR'); exact CR).
    assert (Hnx : nmA x = n /\ parA x = Some Rm) by (unfold nm1, par1; rewrite oid_eqb_refl; auto).
    destruct Hnx as [Hnx Hpx].
    split; [|split; [|split]].
    - intros k e. unfold reg_entry. split.
      + destruct (pget k (allobjs s)) as [o|] eqn:Ek; [|discriminate].
        destruct (or_sound _ _ _ _ _ HR' k o Ek) as [Co Ko]. apply Hcr in Co.
        destruct (objs s o) as [ob|] eqn:Eo; [|discriminate]. destruct (sobj p o) as [si|] eqn:Es; [|congruence].
        intros Hx. inversion Hx; subst e. exists o, si. split; [exact Es|]. split; [exact Ko|]. eapply Hinfo; eassumption.
      + intros (o & si & Hs & Hk & ->).
        assert (Co : created_of p s o) by (apply Hcr; congruence).
        pose proof (or_complete _ _ _ _ _ HR' o Co) as Hget. rewrite Hk in Hget. rewrite Hget.
        destruct (objs s o) as [ob|] eqn:Eo; [|exfalso; apply (oa_exists _ _ _ _ _ HA) in Co; congruence].
        f_equal. eapply Hinfo; eassumption.
    - exists (map fst (o_contents db)). unfold contents_view. rewrite HgD, Ed. split; [reflexivity|].
      apply nget_None_notin. destruct (nget xname (o_contents db)) as [o|] eqn:Eg; [|reflexivity]. exfalso.
      destruct (oa_contents _ _ _ _ _ HA Dm db xname o Ed Eg) as (Co & Po & No).
      assert (Hox : o <> x) by (intros ->; rewrite Hpx in Po; inversion Po; congruence).
      unfold nm1, par1 in Po, No. rewrite (oid_eqb_neq o x Hox) in Po, No. apply Hox.
      apply H0; [apply (oa_dom _ _ _ _ _ HA); exact Co|exact Hxdom|].
      apply (key_same p nm0 par0); [rewrite (sparent_x p D ix Hix Hxdom); exact Po|congruence].
    - destruct (oa_complete _ _ _ _ _ HA x Rm Cx Hpx) as (rb & Er & Hg). rewrite Hnx in Hg.
      exists (map fst (o_contents rb)). unfold contents_view. rewrite HgR, Er. split; [reflexivity|].
      apply nget_In in Hg. apply in_map_iff. exists (n, x). auto.
    - unfold alias_view. rewrite HgD, Ed. exact Ea.
  Qed.
  (* the final state itself (for the theorems about what can be looked up in it) *)
  Theorem moved_final0 sigma :
    Permutation sigma (module_ids p) ->
    exists s, run_state p sigma = Ok s /\ InvA s /\ frames s = [] /\ unproc s = [] /\ aliasD s.
  Proof.
    intros Hperm. unfold run_state.
    destruct (run_machine_ok2 (run_fuel p) (init_state p sigma) (Inv2_init sigma Hperm) (init_mu p sigma Hperm))
      as (s & Hrun & H2 & Hfr & Hun).
    exists s. split; [exact Hrun|].
    assert (Hph : dpendb s = false) by (unfold dpendb; rewrite Hfr, Hun; reflexivity).
    destruct (i2_p1 _ s H2 Hph) as (HI & HaD & _). auto.
  Qed.

  (* ---- a consumer module C (neither R nor D) without star imports / assignment aliases: its alias map follows its
          import statements, whatever the schedule and whenever the move happens ---- *)
  Section Consumer.
    Variables (C : N) (miC : modinfo).
    Hypothesis HC_mod : modinfo_of p C = Some miC.
    Hypothesis HC_R : C <> R.
    Hypothesis HC_D : C <> D.
    Hypothesis HC_plain : forall st, In st (m_stmts miC) -> plain_stmt st = true.
    Notation Cm := (C, 0, 0).

    Definition CAInv (s : state) : Prop :=
      exists cb, objs s Cm = Some cb /\
        (In C (unproc s) -> o_alias cb = []) /\
        (forall fr, In fr (frames s) -> f_mod fr = C ->
           exists pre, expand_stmts (m_stmts miC) = pre ++ f_todo fr /\ (f_modname fr, o_alias cb) = alias_ops p C pre) /\
        (~ In C (unproc s) -> (forall fr, In fr (frames s) -> f_mod fr <> C) -> o_alias cb = static_alias p C).

    Lemma CA_begin ex s m s' : Inv2x ex s -> CAInv s -> begin_module p s m = Next s' -> CAInv s'.
    Proof.
      intros H (cb & Ecb & Hu & Hfc & Hd) Hb.
      destruct (begin_module_ctl p _ _ _ Hb) as (mi & Hmi & Hmst & Hin & Hun & Hfr & _).
      assert (Hnd : NoDup (unproc s)) by apply (c_nodup p s (Inv2_ctl _ s H)).
      assert (Hobj : exists cb', objs s' Cm = Some cb' /\ o_alias cb' = o_alias cb).
      { destruct (begin_module_inv p _ _ _ Hb) as (mi' & _ & _ & _ & Hs'). rewrite Hs'. cbn [set_frames objs].
        match goal with |- context [upd_obj ?s0 ?o ?f] => set (s0' := s0); set (f' := f) end.
        assert (E0 : objs s0' Cm = Some cb) by exact Ecb.
        destruct (N.eq_dec C m) as [E|Hne].
        - subst m. rewrite (upd_obj_some s0' _ f' cb E0), objs_set_obj_same. eexists. split; reflexivity.
        - assert (Hne' : Cm <> (m, 0, 0)) by (intros E; inversion E; congruence).
          destruct (objs s0' (m, 0, 0)) as [mb|] eqn:E1.
          + rewrite (upd_obj_some s0' _ f' mb E1), objs_set_obj_other by exact Hne'. exists cb. split; [exact E0|reflexivity].
          + rewrite (upd_obj_none s0' _ f' E1). exists cb. split; [exact E0|reflexivity]. }
      destruct Hobj as (cb' & Ecb' & A). exists cb'. split; [exact Ecb'|]. rewrite A, Hun, Hfr. split; [|split].
      - intros Hx. apply (remove1_In_iff m (unproc s) C Hnd) in Hx. apply Hu. tauto.
      - intros fr [<-|Hinf] Hm2; cbn [f_mod f_todo f_modname] in *.
        + subst m. rewrite HC_mod in Hmi. inversion Hmi; subst mi. exists []. split; [reflexivity|]. rewrite (Hu Hin). reflexivity.
        + apply Hfc; assumption.
      - intros Hnu Hnf. assert (Hne : C <> m) by (intros ->; apply (Hnf _ (or_introl eq_refl)); reflexivity).
        apply Hd; [intros Hx; apply Hnu; apply (remove1_In_iff m (unproc s) C Hnd); tauto|].
        intros fr Hinf. apply Hnf. right. exact Hinf.
    Qed.

    Lemma CA_finish s fr rest :
      CAInv s -> frames s = fr :: rest -> f_todo fr = [] -> CAInv (set_frames (set_mst s (f_mod fr) PROCESSED) rest).
    Proof.
      intros (cb & Ecb & Hu & Hfc & Hd) Hf Ht. exists cb. split; [exact Ecb|]. cbn [set_frames set_mst unproc frames].
      split; [exact Hu|]. split.
      - intros fr0 Hin. apply Hfc. rewrite Hf. right. exact Hin.
      - intros Hnu Hnf. destruct (N.eq_dec (f_mod fr) C) as [E|E].
        + destruct (Hfc fr ltac:(rewrite Hf; left; reflexivity) E) as (pre & He & Ha). rewrite Ht, app_nil_r in He.
          unfold static_alias. rewrite HC_mod, He, <- Ha. reflexivity.
        + apply Hd; [exact Hnu|]. intros fr0 Hin. rewrite Hf in Hin. destruct Hin as [<-|Hin]; [exact E|apply Hnf; exact Hin].
    Qed.

    Lemma plainC_ops op : In op (expand_stmts (m_stmts miC)) -> op <> MImportAll /\ (forall i t v, op <> MStmt i (SAlias t v)).
    Proof.
      intros Hin. split.
      - intros ->. destruct (In_expand_from_ImportAll _ _ Hin) as (lv & m' & Hst). pose proof (HC_plain _ Hst) as Hp. discriminate.
      - intros i t v ->. unfold expand_stmts in Hin. apply In_expand_from_MStmt in Hin. destruct Hin as (k & Hn & _ & _).
        apply nth_error_In in Hn. pose proof (HC_plain _ Hn) as Hp. discriminate.
    Qed.

    Lemma modA_par m : parA (m, 0, 0) = sparent p (m, 0, 0).
    Proof. unfold par1. rewrite (oid_eqb_neq (m, 0, 0) x); [reflexivity|]. intros E. inversion E. congruence. Qed.
    Lemma modA_key m : keyA (m, 0, 0) = skey p (m, 0, 0).
    Proof. apply (key1_nonsub p R D ix n Hix). intros [_ E]. cbn in E. congruence. Qed.

    (* the alias map of C after an operation that does not move x *)
    Lemma CA_step_frames s fr rest s1 fr1 cb1 :
      CAInv s -> Ctl p s -> frames s = fr :: rest -> unproc s1 = unproc s -> f_mod fr1 = f_mod fr -> f_mod fr <> C ->
      objs s1 Cm = Some cb1 -> (forall cb, objs s Cm = Some cb -> o_alias cb1 = o_alias cb) ->
      CAInv (set_frames s1 (fr1 :: rest)).
    Proof.
      intros (cb & Ecb & Hu & Hfc & Hd) HC Hf Hun Hfm NC E1 A. exists cb1. split; [exact E1|]. rewrite (A cb Ecb).
      cbn [set_frames unproc frames]. rewrite Hun. split; [exact Hu|]. split.
      - intros fr0 [<-|Hin] Hm0; [congruence|]. apply Hfc; [rewrite Hf; right; exact Hin|exact Hm0].
      - intros Hnu Hnf. apply Hd; [exact Hnu|]. intros fr0. rewrite Hf. intros [<-|Hin]; [exact NC|apply Hnf; right; exact Hin].
    Qed.

    Lemma CA_other s fr rest op todo s1 fr1 en :
      Inv2 s -> CAInv s -> frames s = fr :: rest -> f_todo fr = op :: todo ->
      exec_op s (with_todo todo fr) op = (s1, fr1, en) ->
      N.eqb (f_mod fr) R && is_desig op = false ->
      CAInv (set_frames s1 (fr1 :: rest)).
    Proof.
      intros H HCA Hf Ht He Hnd. pose proof (Inv2_ctl _ s H) as HC.
      pose proof (ctl_exec_op s (with_todo todo fr) op) as Hctl. pose proof (exec_op_frame s (with_todo todo fr) op) as Hfr.
      rewrite He in Hctl, Hfr. cbn [fst snd] in Hctl, Hfr. destruct Hfr as (Hfm & Hft). cbn [with_todo f_mod f_todo] in Hfm, Hft.
      destruct (Inv2_suffix _ s fr H ltac:(rewrite Hf; left; reflexivity)) as (mi & pre & Hmi & Hexp). rewrite Ht in Hexp.
      assert (Hop_name : forall o a mi', op = MImportName o a -> modinfo_of p (f_mod fr) = Some mi' -> ~ In a (exports_of_mod mi')).
      { intros o a mi' Hop Hmi' Hin. rewrite Hmi in Hmi'. inversion Hmi'; subst mi'.
        assert (Hx : In (MImportName o a) (expand_stmts (m_stmts mi))) by (rewrite Hexp, Hop; apply in_or_app; right; left; reflexivity).
        destruct (In_expand_from_ImportName _ _ _ _ Hx) as (lv & m' & nms & Hst & Hoa).
        destruct (Honly _ mi _ Hmi Hst (o, a) Hoa Hin) as [E1 E2]. cbn [snd] in E2.
        rewrite E1, N.eqb_refl, Hop in Hnd. cbn [andb is_desig] in Hnd. rewrite E2, N.eqb_refl in Hnd. discriminate. }
      assert (Hop_all : forall mi', op = MImportAll -> modinfo_of p (f_mod fr) = Some mi' -> exports_of_mod mi' = []).
      { intros mi' Hop Hmi'. rewrite Hmi in Hmi'. inversion Hmi'; subst mi'.
        assert (Hx : In MImportAll (expand_stmts (m_stmts mi))) by (rewrite Hexp, Hop; apply in_or_app; right; left; reflexivity).
        destruct (In_expand_from_ImportAll _ _ Hx) as (lv & m' & Hst). exact (Honly _ mi _ Hmi Hst). }
      assert (Hun : unproc s1 = unproc s) by (destruct Hctl as (_ & Hx & _); exact Hx).
      destruct (N.eq_dec (f_mod fr) C) as [EC|NC].
      - (* an operation of the consumer itself *)
        destruct HCA as (cb & Ecb & Hu & Hfc & Hd).
        assert (HmiC : modinfo_of p (f_mod fr) = Some miC) by (rewrite EC; exact HC_mod).
        rewrite Hmi in HmiC. inversion HmiC; subst mi.
        assert (Hin : In op (expand_stmts (m_stmts miC))) by (rewrite Hexp; apply in_or_app; right; left; reflexivity).
        destruct (plainC_ops op Hin) as [Hns Hna].
        assert (Ecb' : objs s (f_mod fr, 0, 0) = Some cb) by (rewrite EC; exact Ecb).
        assert (Hon : forall o a, op = MImportName o a -> ~ In a (exports_of_mod miC)) by (intros o a Ho; exact (Hop_name o a miC Ho Hmi)).
        assert (Hstep : exists mb1, objs s1 (f_mod fr, 0, 0) = Some mb1 /\
                                    (f_modname fr1, o_alias mb1) = alias_op p (f_mod fr) (f_modname fr, o_alias cb) op).
        { destruct (dpendb s) eqn:Eph.
          - exact (op_alias_step p nm0 par0 GoodT (fun _ => eq_refl) (fun _ => eq_refl) s fr rest op todo s1 fr1 en miC cb
                                 (i2_p0 _ s H Eph) Hf Ht He Hmi Ecb' Hon Hns Hna).
          - destruct (i2_p1 _ s H Eph) as (HI & _).
            exact (op_alias_step p nmA parA Good1 modA_par modA_key s fr rest op todo s1 fr1 en miC cb HI Hf Ht He Hmi Ecb' Hon Hns Hna). }
        destruct Hstep as (mb1 & E1 & A1). rewrite EC in E1, A1. exists mb1. split; [exact E1|].
        cbn [set_frames unproc frames]. rewrite Hun.
        assert (HnuC : ~ In C (unproc s)).
        { intros Hx. destruct (c_frames p s HC fr) as [A _]; [rewrite Hf; left; reflexivity|].
          apply (c_unproc p s HC) in Hx. destruct Hx as [_ B]. rewrite EC in A. contradiction. }
        split; [intros Hx; contradiction|]. split.
        + intros fr0 [<-|Hin0] Hm0.
          * destruct (Hfc fr ltac:(rewrite Hf; left; reflexivity) EC) as (pre0 & He0 & Ha0). rewrite Ht in He0.
            exists (pre0 ++ [op]). split; [rewrite Hft, <- app_assoc; exact He0|]. rewrite alias_ops_snoc, <- Ha0. exact A1.
          * exfalso. pose proof (c_fnodup p s HC) as Hn. rewrite Hf in Hn. cbn [map] in Hn. apply NoDup_cons_iff in Hn.
            destruct Hn as [Hni _]. apply Hni. rewrite EC, <- Hm0. apply in_map. exact Hin0.
        + intros _ Hnf. exfalso. apply (Hnf fr1 (or_introl eq_refl)). congruence.
      - (* an operation of another module *)
        assert (M : meta_weak (f_mod fr, 0, 0) s s1).
        { destruct (dpendb s) eqn:Eph.
          - exact (proj2 (proj2 (op_triple p nm0 par0 H0 GoodT (static0 p) s fr rest op todo s1 fr1 en (i2_p0 _ s H Eph) Hf Ht He Hop_name Hop_all))).
          - destruct (i2_p1 _ s H Eph) as (HI & _).
            exact (proj2 (proj2 (op_triple p nmA parA H1 Good1 staticA s fr rest op todo s1 fr1 en HI Hf Ht He Hop_name Hop_all))). }
        pose proof HCA as (cb & Ecb & _). destruct (M Cm cb Ecb) as (cb1 & E1 & _ & _ & Hal).
        apply (CA_step_frames s fr rest s1 fr1 cb1 HCA HC Hf Hun Hfm NC E1).
        intros cb0 E0. rewrite Ecb in E0. inversion E0; subst cb0. apply Hal. intros E. inversion E. congruence.
    Qed.

    Lemma CA_step s s' : Inv2 s -> CAInv s -> step p s = Next s' -> CAInv s'.
    Proof.
      intros H HCA Hs. pose proof (Inv2_ctl _ s H) as HC.
      destruct (step_cases p _ _ Hs) as [(Hf & m & rest & Hu & Hb)|[(fr & rest & Hf & Ht & ->)|
        (fr & rest & op & todo & s1 & fr1 & en & Hf & Ht & He & Hen)]].
      - exact (CA_begin _ s m s' H HCA Hb).
      - apply CA_finish; assumption.
      - destruct (N.eqb (f_mod fr) R && is_desig op) eqn:Ed.
        + apply andb_true_iff in Ed. destruct Ed as [Em Ed]. apply N.eqb_eq in Em.
          destruct (Inv2_desig s fr rest op todo s1 fr1 en H Hf Ht He Em Ed) as (-> & H2 & M). cbn [ensure] in Hen.
          inversion Hen; subst s'.
          pose proof (ctl_exec_op s (with_todo todo fr) op) as Hctl. pose proof (exec_op_frame s (with_todo todo fr) op) as Hfr.
          rewrite He in Hctl, Hfr. cbn [fst snd] in Hctl, Hfr. destruct Hfr as (Hfm & _). cbn [with_todo f_mod] in Hfm.
          pose proof HCA as (cb & Ecb & _). destruct (M Cm cb Ecb) as (cb1 & E1 & _ & _ & Hal).
          apply (CA_step_frames s fr rest s1 fr1 cb1 HCA HC Hf); [destruct Hctl as (_ & Hx & _); exact Hx|exact Hfm|congruence|exact E1|].
          intros cb0 E0. rewrite Ecb in E0. inversion E0; subst cb0. apply Hal. intros E. inversion E. congruence.
        + pose proof (CA_other s fr rest op todo s1 fr1 en H HCA Hf Ht He Ed) as HCA2.
          destruct (Inv2_other s fr rest op todo s1 fr1 en H Hf Ht He Ed) as [H2 _].
          rewrite ensure_alt in Hen. destruct (ensure_target (set_frames s1 (fr1 :: rest)) en) as [m|] eqn:Et.
          * exact (CA_begin _ _ m s' H2 HCA2 Hen).
          * inversion Hen; subst s'. exact HCA2.
    Qed.

    Lemma CA_init sigma : Permutation sigma (module_ids p) -> CAInv (init_state p sigma).
    Proof.
      intros Hperm. pose proof (Inv_init p H0 Hwf sigma Hperm) as HI. pose proof (i_oa p _ _ _ _ HI) as HA.
      pose proof (created_module p (init_state p sigma) C miC HC_mod) as CC.
      destruct (objs (init_state p sigma) Cm) as [cb|] eqn:Ecb; [|exfalso; apply (oa_exists _ _ _ _ _ HA) in CC; congruence].
      assert (Hfr : frames (init_state p sigma) = []).
      { unfold init_state. cbn [set_unproc frames]. rewrite frames_add_modules. reflexivity. }
      exists cb. split; [exact Ecb|]. rewrite Hfr. split; [|split].
      - intros _.
        assert (Hnil : alias_nil_on (fun _ => True) (init_state p sigma)).
        { unfold init_state. eapply anil_objs; [reflexivity|]. apply anil_add_modules. intros x0 xb _ Hx. discriminate. }
        exact (Hnil Cm cb I Ecb).
      - intros fr [].
      - intros Hnu. exfalso. apply Hnu. unfold init_state. cbn [set_unproc unproc].
        eapply Permutation_in; [apply Permutation_sym; exact Hperm|]. apply module_ids_In. rewrite HC_mod. discriminate.
    Qed.

    Lemma run_machine_okC fuel : forall s,
      Inv2 s -> CAInv s -> (mu p s < fuel)%nat ->
      exists s', run_machine p fuel s = Ok s' /\ Inv2 s' /\ CAInv s' /\ frames s' = [] /\ unproc s' = [].
    Proof.
      induction fuel as [|f IH]; intros s HI HCA Hlt; [lia|]. cbn [run_machine].
      destruct (step p s) as [s1| |k] eqn:Es.
      - apply IH; [eapply Inv2_step; eassumption|eapply CA_step; eassumption|]. pose proof (step_mu p _ _ Es). lia.
      - exists s. destruct (step_halt p s Es). auto.
      - exfalso. exact (step_not_stuck p s k (Inv2_ctl _ s HI) (Inv2_modules_valid s HI) Es).
    Qed.

    (* the final state: the moved registry AND the alias map of the consumer *)
    Theorem moved_final sigma :
      Permutation sigma (module_ids p) ->
      exists s, run_state p sigma = Ok s /\ InvA s /\ frames s = [] /\ unproc s = [] /\ aliasD s /\
                exists cb, objs s Cm = Some cb /\ o_alias cb = static_alias p C.
    Proof.
      intros Hperm. unfold run_state.
      destruct (run_machine_okC (run_fuel p) (init_state p sigma) (Inv2_init sigma Hperm) (CA_init sigma Hperm) (init_mu p sigma Hperm))
        as (s & Hrun & H2 & (cb & Ecb & _ & _ & Hd) & Hfr & Hun).
      exists s. split; [exact Hrun|].
      assert (Hph : dpendb s = false) by (unfold dpendb; rewrite Hfr, Hun; reflexivity).
      destruct (i2_p1 _ s H2 Hph) as (HI & HaD & _).
      split; [exact HI|]. split; [exact Hfr|]. split; [exact Hun|]. split; [exact HaD|].
      exists cb. split; [exact Ecb|]. apply Hd; [rewrite Hun; intros []|rewrite Hfr; intros fr []].
    Qed.
  End Consumer.
End MoveMachine.
