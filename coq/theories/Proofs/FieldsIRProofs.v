(* Proofs/FieldsIRProofs.v -- interpreting the bodies that harness/gen/gen_c09_code.py translated from the CURRENT
   pydoctor/epydoc2stan.py (Gen/FieldsCode.v) is the hand-written Model/Fields.v, for every object, field and state.

   The proofs are symbolic execution: run the interpreter (cbn), replace a call of a helper by the lemma about the
   helper, split on what the code branches on, compare normal forms.  Nothing matches on the shape of the generated
   term, so an edit of the source that keeps the meaning still proves and one that does not leaves a goal open.

   The model keeps reports as records (kind, name, variant); the code builds the message text.  The two are related by
   Spec.Routing.render_report: the state of the interpreter that corresponds to the model state st is `irstate st`. *)
From Coq Require Import ZArith NArith List Bool Arith Lia.
From PydoctorVerif Require Import Base.Sexp Model.FieldTypes Gen.TablesC09 Model.Fields Model.FieldsIR Gen.FieldsCode
     Spec.Routing Spec.CodeTie Proofs.FieldsCount.
Import ListNotations.

Local Arguments lstrip_star : simpl never.
Local Arguments canon_name : simpl never.
Local Arguments dict_set : simpl never.
Local Arguments unknowns_add : simpl never.
Local Arguments text_eqb : simpl never.
Local Arguments for_loop : simpl never.
Local Arguments rend : simpl never.
Local Arguments lookup_handler : simpl never.

(* the loop `for param_name, _ in annotations.items(): if param_name == name: name = param_name`, whatever its body is
   written like: it leaves in the local nm the key that canon_name picks *)
Lemma for_loop_canon : forall run x nm ms,
  (forall loc acc p, loc nm = VName acc ->
     exists loc1, run (setv loc x (VName p)) ms = RNormal loc1 ms /\
                  loc1 nm = VName (if text_eqb (pn_text p) (pn_text acc) then p else acc)) ->
  forall anns loc n0, loc nm = VName n0 ->
  exists loc', for_loop run x (map VName anns) loc ms = RNormal loc' ms /\ loc' nm = VName (canon_name anns n0).
Proof.
  intros run x nm ms Hrun. induction anns as [|p anns IH]; intros loc n0 Hn.
  - exists loc. split; [reflexivity|exact Hn].
  - destruct (Hrun loc n0 p Hn) as (loc1 & H1 & H2).
    destruct (IH loc1 _ H2) as (loc' & H3 & H4).
    exists loc'. split.
    + change (map VName (p :: anns)) with (VName p :: map VName anns). unfold for_loop; fold for_loop.
      rewrite H1. exact H3.
    + exact H4.
Qed.

(* nm: the local that holds the name (the proof tries each) *)
Ltac run_loop nm :=
  match goal with
  | |- context [for_loop ?run ?x (map VName ?anns) ?loc ?ms] =>
    let Hb := fresh "Hb" in let H1 := fresh "H1" in let H2 := fresh "H2" in let loc' := fresh "loc'" in
    assert (Hb : forall lc ac pp, lc nm = VName ac ->
              exists loc1, run (setv lc x (VName pp)) ms = RNormal loc1 ms /\
                           loc1 nm = VName (if text_eqb (pn_text pp) (pn_text ac) then pp else ac));
    [ let Hacc := fresh "Hacc" in let acc := fresh "acc" in let l0 := fresh "l0" in let p0 := fresh "p0" in
      intros l0 acc p0 Hacc; cbn; rewrite Hacc; cbn; rewrite ?(text_eqb_sym (pn_text acc));
      match goal with |- context [text_eqb ?u ?v] => destruct (text_eqb u v) end;
      cbn; eexists; (split; [reflexivity|]); cbn; auto
    | destruct (for_loop_canon run x nm ms Hb anns loc _ eq_refl) as (loc' & H1 & H2);
      rewrite H1; cbn; rewrite H2; clear Hb H1 H2 ]
  end.

(* what the code and the model branch on *)
Ltac split_atom :=
  match goal with
  | |- context [f_arg ?f] => destruct (f_arg f) eqn:?
  | |- context [e_obj ?E] => destruct (e_obj E) eqn:?
  | |- context [st_ret ?s] => destruct (st_ret s) eqn:?
  | |- context [st_yld ?s] => destruct (st_yld s) eqn:?
  | |- context [e_unknown_base ?E] => destruct (e_unknown_base E) eqn:?
  | |- context [existsb ?a ?b] => destruct (existsb a b) eqn:?
  | |- context [e_gn ?E] => destruct (e_gn E) eqn:?
  end.

(* texts built by the code and by render_report: the same pieces, bracketed differently *)
Ltac txt := cbn; repeat rewrite <- app_assoc; rewrite ?app_nil_r; cbn; try reflexivity.

Ltac model_defs :=
  unfold handle_return, handle_yield, handle_returntype, handle_yieldtype, handle_type, handle_param, handle_keyword,
    handle_raises, handle_warns, handle_unknown, handle_param_name, handle_param_not_found, annotations_of_source,
    unexpected_arg, ret_or_new, yld_or_new, pdesc_named, has_key, add_report, irstate, vname, obj_is.

Lemma rend_mk : forall i k n v,
  rend {| rp_field := i; rp_kind := k; rp_name := n; rp_variant := v |} =
  (i, render_report {| rp_field := i; rp_kind := k; rp_name := n; rp_variant := v |}).
Proof. reflexivity. Qed.

Ltac finish_ir := rewrite ?map_app; cbn [map]; rewrite ?rend_mk; unfold render_report; txt.

(* reading an attribute back *)
Lemma to_ty_of_ty : forall x, to_ty (of_ty x) = Some x.
Proof. destruct x; reflexivity. Qed.
Lemma to_origin_of_origin : forall x, to_origin (of_origin x) = Some x.
Proof. destruct x; reflexivity. Qed.
Lemma to_body_of_body : forall x, to_body (of_body x) = Some x.
Proof. destruct x; reflexivity. Qed.

Ltac norm :=
  cbn; repeat (progress rewrite ?to_ty_of_ty, ?to_origin_of_origin, ?to_body_of_body; cbn);
  repeat (progress unfold pdesc_named, has_key; cbn);
  repeat match goal with
         | H : Some _ = Some _ |- _ => inversion H; subst; clear H
         | H : Some _ = None |- _ => discriminate H
         | H : None = Some _ |- _ => discriminate H
         end.

Ltac symex :=
  model_defs; norm;
  repeat first
    [ progress (first [run_loop 0 | run_loop 1 | run_loop 2 | run_loop 3]); norm
    | split_atom; norm ];
  finish_ir.

Section Helpers.
  Variable E : env.
  Variable i : nat.
  Variable f : field.

  Lemma code_unexpected_is_model : forall j st,
    call1 fields_code E i f MUnexpectedArg [VField j] (irstate st) = Some (VNone, irstate (unexpected_arg i f st)).
  Proof. intros j st. unfold call1. symex. Qed.

  Lemma code_param_name_is_model : forall j st,
    call1 fields_code E i f MParamName [VField j] (irstate st) =
    Some (vname (fst (handle_param_name E i f st)), irstate (snd (handle_param_name E i f st))).
  Proof. intros j st. unfold call1. symex. Qed.

  Lemma code_param_not_found_is_model : forall j n st,
    call1 fields_code E i f MParamNotFound [VName n; VField j] (irstate st) =
    Some (VNone, irstate (handle_param_not_found E i n st)).
  Proof. intros j n st. unfold call1. symex. Qed.
End Helpers.

(* ---- the handle_<tag> methods ----------------------------------------------------------------------------------------------------- *)
Section Handlers.
  Variable E : env.
  Variable i : nat.
  Variable f : field.

  Lemma code_handle_return_is_model : forall st,
    run_method E i f code_handle_return st = Some (VNone, irstate (handle_return i f st)).
  Proof. intro st. unfold run_method. symex. Qed.

  Lemma code_handle_yield_is_model : forall st,
    run_method E i f code_handle_yield st = Some (VNone, irstate (handle_yield i f st)).
  Proof. intro st. unfold run_method. symex. Qed.

  Lemma code_handle_returntype_is_model : forall st,
    run_method E i f code_handle_returntype st = Some (VNone, irstate (handle_returntype i f st)).
  Proof. intro st. unfold run_method. symex. Qed.

  Lemma code_handle_yieldtype_is_model : forall st,
    run_method E i f code_handle_yieldtype st = Some (VNone, irstate (handle_yieldtype i f st)).
  Proof. intro st. unfold run_method. symex. Qed.

  Lemma code_handle_raises_is_model : forall st,
    run_method E i f code_handle_raises st = Some (VNone, irstate (handle_raises i f st)).
  Proof. intro st. unfold run_method. symex. Qed.

  Lemma code_handle_warns_is_model : forall st,
    run_method E i f code_handle_warns st = Some (VNone, irstate (handle_warns i f st)).
  Proof. intro st. unfold run_method. symex. Qed.

  Lemma code_handle_unknown_is_model : forall st,
    run_method E i f code_handleUnknownField st = Some (VNone, irstate (handle_unknown i f st)).
  Proof. intro st. unfold run_method. symex. Qed.

  Lemma code_handle_type_is_model : forall st,
    run_method E i f code_handle_type st = Some (VNone, irstate (handle_type E i f st)).
  Proof. intro st. unfold run_method. symex. Qed.

  Lemma code_handle_param_is_model : forall st,
    run_method E i f code_handle_param st = Some (VNone, irstate (handle_param E i f st)).
  Proof. intro st. unfold run_method. symex. Qed.

  Lemma code_handle_keyword_is_model : forall st,
    run_method E i f code_handle_keyword st = Some (VNone, irstate (handle_keyword E i f st)).
  Proof. intro st. unfold run_method. symex. Qed.
End Handlers.

(* ---- FieldHandler.handle: the method the tag selects ---------------------------------------------------------------------------- *)
Lemma code_handler_is_model : forall E i f h st,
  run_method E i f (code_handler h) st = Some (VNone, irstate (model_handler E i f h st)).
Proof.
  intros E i f h st. destruct h; cbn [code_handler model_handler].
  - apply code_handle_return_is_model.
  - apply code_handle_yield_is_model.
  - apply code_handle_returntype_is_model.
  - apply code_handle_yieldtype_is_model.
  - apply code_handle_type_is_model.
  - apply code_handle_param_is_model.
  - apply code_handle_keyword_is_model.
  - unfold run_method. symex.
  - apply code_handle_raises_is_model.
  - apply code_handle_warns_is_model.
  - unfold run_method. symex.
  - unfold run_method. symex.
  - unfold run_method. symex.
  - unfold run_method. symex.
Qed.

Theorem code_handle_is_model : forall E i f st,
  handle_ir fields_code E i f (irstate st) = Some (irstate (handle E i f st)).
Proof.
  intros E i f st. unfold handle_ir, handle.
  destruct (lookup_handler (f_tag f) handler_table) as [h|].
  - change (c_handler fields_code h) with (code_handler h).
    pose proof (code_handler_is_model E i f h st) as H. unfold run_method in H. rewrite H.
    destruct h; reflexivity.
  - change (c_unknown fields_code) with code_handleUnknownField.
    pose proof (code_handle_unknown_is_model E i f st) as H. unfold run_method in H. rewrite H. reflexivity.
Qed.

(* for field in fields: fh.handle(field) -- never stuck, and the state and the warnings of the model *)
Theorem code_handle_all_is_model : forall E fs i st,
  handle_all_ir fields_code E i fs (irstate st) = Some (irstate (handle_all E i fs st)).
Proof.
  intros E fs. induction fs as [|f fs IH]; intros i st; cbn [handle_all_ir handle_all].
  - reflexivity.
  - rewrite code_handle_is_model. apply IH.
Qed.

(* format_docstring's loop from a fresh FieldHandler *)
Theorem code_run_is_model : forall E fs,
  handle_all_ir fields_code E 0 fs {| ms_st := init_state E; ms_msgs := [] |} =
  Some (irstate (handle_all E 0 fs (init_state E))).
Proof. intros E fs. apply (code_handle_all_is_model E fs 0 (init_state E)). Qed.
