(* Proofs/ProcIRProofs.v -- the interpretation of the bodies translated from the CURRENT pydoctor/model.py
   (Gen/ProcCode.v) is the work-list machine of Model/Proc.v, for every well-formed project, state, module and fuel. *)
From Coq Require Import ZArith NArith List Bool Lia.
From PydoctorVerif Require Import Base.Sexp Model.Proc Model.ProcIR Gen.ProcCode Proofs.ProcProofs.
Import ListNotations.

(* every Module has a source path or a source string (model.py: `if mod.source_path is None: assert mod._py_string is not None`
   holds of every module the system creates: addModule gives a path, addModuleString a string, C modules a path) *)
Definition wf (p : project') : Prop :=
  forall m i, lookup' p m = Some i -> has_path i || has_string i = true.

Lemma lookup_erase p m : lookup (erase p) m = option_map erase_info (lookup' p m).
Proof.
  induction p as [|[k i] p IH]; [reflexivity|].
  cbn [erase map lookup lookup' fst snd]. destruct (N.eqb k m); [reflexivity|]. exact IH.
Qed.

Lemma same_outcome_refl o : same_outcome o o.
Proof. destruct o; cbn; auto. Qed.

Section WithProject.
  Variable p : project'.
  Variable other : N -> bool.
  Hypothesis Hwf : wf p.

  Definition gpm_ir (f : nat) (s : state) (t : N) : outcome :=
    finish (exec t (lookup' p t) (other t) (fun s' => pm_ir proc_code p other f s' t) no_call
                 (c_get_processed_module proc_code) s env0).

  Definition walk_ir (f : nat) : list N -> state -> outcome :=
    fix walk (ts : list N) (s : state) : outcome :=
      match ts with
      | [] => Ok s
      | t :: ts' => match gpm_ir f s t with Ok s' => walk ts' s' | bad => bad end
      end.

  Lemma pm_ir_unfold f s m :
    pm_ir proc_code p other (S f) s m =
    match lookup' p m with
    | None => AssertFail 2
    | Some info =>
        finish (exec m (Some info) false no_call (walk_ir f (imports' info)) (c_process_module proc_code) s env0)
    end.
  Proof. reflexivity. Qed.

  Ltac crunch :=
    repeat (progress (cbn -[walk_ir walk proc_code pm_ir process_module];
                      repeat match goal with H : _ = _ |- _ => rewrite H end)).

  Ltac case_ifs :=
    repeat match goal with
           | |- context [if ?c then _ else _] => destruct c eqn:?
           | |- context [match ?c with UNPROCESSED => _ | PROCESSING => _ | PROCESSED => _ end] => destruct c eqn:?
           end.

  (* getProcessedModule(t) followed by the continuation = one step of the hand-written walk *)
  Lemma walk_ir_eq f :
    (forall s m, same_outcome (pm_ir proc_code p other f s m) (process_module (erase p) f s m)) ->
    forall ts s, same_outcome (walk_ir f ts s) (walk (erase p) f ts s).
  Proof.
    intros IHf. induction ts as [|t ts IH]; intros s.
    - cbn. reflexivity.
    - cbn [walk_ir walk]. unfold gpm_ir. rewrite lookup_erase.
      destruct (lookup' p t) as [ti|] eqn:Elt; cbn [option_map].
      + (* a module of the project *)
        change (c_get_processed_module proc_code) with code_get_processed_module. unfold code_get_processed_module.
        destruct (st s t) eqn:Est.
        * (* UNPROCESSED: processModule is called *)
          cbn -[pm_ir process_module proc_code]. rewrite Est. cbn -[pm_ir process_module proc_code].
          specialize (IHf s t).
          destruct (pm_ir proc_code p other f s t) as [s1| |k1];
            destruct (process_module (erase p) f s t) as [s2| |k2]; cbn in IHf; try contradiction; cbn; auto.
          subst s2. destruct (st s1 t) eqn:Est1; cbn; rewrite ?Est1; cbn; auto; try apply IH.
        * cbn. rewrite Est. cbn. rewrite Est. cbn. apply IH.
        * cbn. rewrite Est. cbn. rewrite Est. cbn. apply IH.
      + (* not a module: None or some other object *)
        change (c_get_processed_module proc_code) with code_get_processed_module. unfold code_get_processed_module.
        destruct (other t); cbn; apply IH.
  Qed.

  Theorem pm_ir_eq :
    forall fuel s m, same_outcome (pm_ir proc_code p other fuel s m) (process_module (erase p) fuel s m).
  Proof.
    induction fuel as [|f IHf]; intros s m.
    - cbn. exact I.
    - rewrite pm_ir_unfold, process_module_unfold, lookup_erase.
      destruct (lookup' p m) as [info|] eqn:El; cbn [option_map].
      2:{ destruct (pstate_eqb (st s m) UNPROCESSED); cbn; [|exact I]. destruct (mem m (unproc s)); cbn; exact I. }
      pose proof (Hwf m info El) as Hw.
      pose proof (walk_ir_eq f IHf (imports' info)) as HW.
      destruct info as [c hp hs pk imps]. cbn [has_path has_string imports'] in *.
      change (c_process_module proc_code) with code_process_module. unfold code_process_module.
      unfold erase_info. cbn [is_c parse_ok' imports' parse_ok imports].
      destruct (st s m) eqn:Est; cbn [pstate_eqb negb];
        [| crunch; exact I | crunch; exact I].
      destruct (mem m (unproc s)) eqn:Emem; cbn [negb];
        [| crunch; exact I].
      destruct c.
      + (* C extension module: push, introspect, PROCESSED, pop *)
        destruct hp, hs; try discriminate Hw; clear Hw;
          crunch; rewrite ?N.eqb_refl; cbn; rewrite ?N.eqb_refl; reflexivity.
      + destruct pk.
        * (* parsed *)
          set (s2 := {| st := upd (st s) m PROCESSING; unproc := remove1 m (unproc s); stack := m :: stack s;
                        reports := reports s; trace := PEnter m :: trace s |}).
          specialize (HW s2).
          destruct hp, hs; try discriminate Hw; clear Hw;
            crunch; fold s2;
            destruct (walk_ir f imps s2) as [s3| |k1]; destruct (walk (erase p) f imps s2) as [s3'| |k2];
            cbn in HW; try contradiction; cbn; auto; subst s3';
            destruct (stack s3) as [|h rest]; cbn; auto;
            destruct (N.eqb h m); cbn; auto.
        * (* unparsable: reported, stays PROCESSING *)
          destruct hp, hs; try discriminate Hw; clear Hw; crunch; reflexivity.
  Qed.

  Theorem process_ir_eq :
    forall rounds fuel s,
      same_outcome (process_ir proc_code p other rounds fuel s) (process (erase p) rounds fuel s).
  Proof.
    induction rounds as [|r IH]; intros fuel s.
    - cbn. destruct (unproc s); cbn; auto.
    - cbn [process_ir process]. destruct (unproc s) as [|m rest]; [cbn; reflexivity|].
      change (c_process_body proc_code) with code_process_body. unfold code_process_body. cbn -[pm_ir process_module proc_code].
      pose proof (pm_ir_eq fuel s m) as H.
      destruct (pm_ir proc_code p other fuel s m) as [s1| |k1];
        destruct (process_module (erase p) fuel s m) as [s2| |k2]; cbn in H; try contradiction; cbn; auto.
      subst s2. apply IH.
  Qed.

  Corollary run_project_ir_eq order :
    same_outcome (run_project_ir proc_code p other order) (run_project (erase p) order).
  Proof. apply process_ir_eq. Qed.
End WithProject.

(* ---- the property itself, on the code translated from model.py ------------------------------------------- *)
Definition effective_ok (i : modinfo') : bool := is_c i || parse_ok' i.

Lemma parse_ok_erase i : parse_ok (erase_info i) = effective_ok i.
Proof. unfold erase_info, effective_ok. destruct (is_c i); reflexivity. Qed.

Theorem code_run_project_total :
  forall (p : project') (other : N -> bool) (order : list N),
    wf p -> NoDup order -> (forall m, In m order <-> lookup' p m <> None) ->
    exists s', run_project_ir proc_code p other order = Ok s' /\ unproc s' = [] /\ stack s' = [] /\
               NoDup (reports s') /\
               (forall m i, lookup' p m = Some i ->
                            st s' m = (if effective_ok i then PROCESSED else PROCESSING) /\
                            (In m (reports s') <-> effective_ok i = false) /\
                            counts m (trace s') = if effective_ok i then (1, 1, 0) else (0, 0, 1)).
Proof.
  intros p other order Hwf Hnd Hord.
  assert (Hk : forall m, In m order <-> known (erase p) m).
  { intros m. rewrite Hord. unfold known. rewrite lookup_erase. destruct (lookup' p m); cbn; split; congruence. }
  destruct (run_project_total (erase p) order Hnd Hk) as (s' & Hrun & Hu & Hs & Hr & Hall).
  pose proof (run_project_ir_eq p other Hwf order) as Heq. rewrite Hrun in Heq.
  destruct (run_project_ir proc_code p other order) as [s1| |k]; cbn in Heq; try contradiction. subst s1.
  exists s'. split; [reflexivity|]. split; [exact Hu|]. split; [exact Hs|]. split; [exact Hr|].
  intros m i Hl. pose proof (Hall m (erase_info i)) as H'. rewrite lookup_erase, Hl in H'.
  specialize (H' eq_refl). unfold final_of in H'. rewrite parse_ok_erase in H'. exact H'.
Qed.
