(* Proofs/RegistryTotal.v -- a guarded operation does not raise: guard s op -> Inv s -> exists s', step s op = Some s'.
   The main ingredient is that the pre-order walk down `contents` visits no object twice in a state that satisfies
   Inv, so that every `del allobjects[x.fullName()]` of System._remove / _handle_reparenting_pre finds its key. *)
From Coq Require Import ZArith NArith List Bool Lia.
From PydoctorVerif Require Import Base.Sexp Model.Registry Spec.RegistryInv Proofs.RegistryBase Proofs.RegistryProofs
     Proofs.RegistryReparent Proofs.RegistryFuel.
Import ListNotations.
Local Open Scope N_scope.

Lemma NoDup_app_intro {X} : forall (l1 l2 : list X), NoDup l1 -> NoDup l2 -> (forall x, In x l1 -> ~ In x l2) -> NoDup (l1 ++ l2).
Proof.
  induction l1 as [|a l1 IH]; cbn; intros l2 H1 H2 Hd; [exact H2|].
  inversion H1 as [|? ? Ha H1']; subst. constructor.
  - rewrite in_app_iff. intros [H|H]; [contradiction | apply (Hd a); [left; reflexivity | exact H]].
  - apply IH; [exact H1' | exact H2 | intros x Hx; apply Hd; right; exact Hx].
Qed.

(* the pieces of a concatenation are duplicate-free and carry pairwise different tags *)
Lemma oconcat_nodup {T} (g : id -> option (list id)) (tag : id -> option T) (Q : id -> Prop) :
  forall (cs : list (T * id)) L, NoDup (map fst cs) -> oconcat g (map snd cs) = Some L ->
    (forall n c Tc, In (n, c) cs -> g c = Some Tc -> NoDup Tc /\ forall x, In x Tc -> tag x = Some n /\ Q x) ->
    NoDup L /\ forall x, In x L -> (exists n, In n (map fst cs) /\ tag x = Some n) /\ Q x.
Proof.
  induction cs as [|[n c] cs IH]; cbn; intros L Hnd HL Hp.
  - inversion HL; subst. split; [constructor | intros x []].
  - destruct (g c) as [Tc|] eqn:Ec; [|discriminate]. destruct (oconcat g (map snd cs)) as [L'|] eqn:EL; [|discriminate].
    inversion HL; subst L. inversion Hnd as [|? ? Hn Hnd']; subst.
    destruct (Hp n c Tc (or_introl eq_refl) Ec) as [N1 P1].
    destruct (IH L' Hnd' eq_refl) as [N2 P2]; [intros n' c' Tc' Hin Hg; apply (Hp n' c' Tc'); [right; exact Hin | exact Hg]|].
    split.
    + apply NoDup_app_intro; [exact N1 | exact N2|]. intros x Hx1 Hx2.
      destruct (P1 x Hx1) as [T1 _]. destruct (P2 x Hx2) as [[n' [Hn' T2]] _]. rewrite T1 in T2. inversion T2; subst n'.
      contradiction.
    + intros x Hx. apply in_app_iff in Hx. destruct Hx as [Hx|Hx].
      * destruct (P1 x Hx) as [T1 Q1]. split; [exists n; split; [left; reflexivity | exact T1] | exact Q1].
      * destruct (P2 x Hx) as [[n' [Hn' T2]] Q2]. split; [exists n'; split; [right; exact Hn' | exact T2] | exact Q2].
Qed.

Lemma nth_error_snoc_path : forall (p : path) n r, nth_error ((p ++ [n]) ++ r) (length p) = Some n.
Proof.
  intros p n r. rewrite <- app_assoc. rewrite nth_error_app2 by lia. rewrite Nat.sub_diag. reflexivity.
Qed.

(* the walk visits every object once, and only objects whose path extends the path of the start *)
Lemma subtree_f_nodup : forall s, Inv s -> forall F a p T, reg s a -> fullpath s a = Some p ->
    subtree_f F (store s) a = Some T -> NoDup T /\ forall x, In x T -> exists r, fullpath s x = Some (p ++ r).
Proof.
  intros s HI. induction F as [|F IH]; intros a p T Ha Hp HT; [discriminate|]. cbn in HT.
  destruct (oconcat (subtree_f F (store s)) (map snd (ocont (store s a)))) as [L|] eqn:EL; [|discriminate].
  inversion HT; subst T. clear HT.
  set (tag := fun x => match fullpath s x with Some px => nth_error px (length p) | None => None end).
  set (Q := fun x => exists r, fullpath s x = Some (p ++ r)).
  destruct (oconcat_nodup (subtree_f F (store s)) tag Q (ocont (store s a)) L (inv_ckeys s HI a Ha) EL) as [N P].
  { intros n c Tc Hin Hg. destruct (inv_cont s HI a n c Ha Hin) as [Hc1 [Hc2 Hc3]].
    assert (Hpc : fullpath s c = Some (p ++ [n])) by (rewrite <- Hc3; apply (reg_child_path s HI c a p Hc1 Hc2 Hp)).
    destruct (IH c (p ++ [n]) Tc Hc1 Hpc Hg) as [N1 P1]. split; [exact N1|]. intros x Hx. destruct (P1 x Hx) as [r Hr].
    split.
    - unfold tag. rewrite Hr. apply nth_error_snoc_path.
    - exists ([n] ++ r). rewrite app_assoc. exact Hr. }
  split.
  - constructor; [|exact N]. intros Hin. destruct (P a Hin) as [[n [_ Ht]] _]. unfold tag in Ht. rewrite Hp in Ht.
    assert (E : nth_error p (length p) = None) by (apply nth_error_None; lia). rewrite E in Ht. discriminate.
  - intros x [<-|Hx]; [exists []; rewrite app_nil_r; exact Hp | apply (P x Hx)].
Qed.
Lemma subtree_nodup : forall s a T, Inv s -> reg s a -> subtree s a = Some T -> NoDup T.
Proof.
  intros s a T HI Ha HT. destruct (reg_self s HI a Ha) as [p [Hp _]].
  apply (subtree_f_nodup s HI _ a p T Ha Hp HT).
Qed.

(* every deletion of the walk finds its key *)
Lemma del_walk_total : forall s T m, NoDup T -> (forall x, In x T -> exists k, fullpath s x = Some k /\ rget k m = Some x) ->
    exists m', del_walk s T m = Some m'.
Proof.
  intros s. induction T as [|x t IH]; intros m Hnd H; cbn; [eauto|].
  inversion Hnd as [|? ? Hx Hnd']; subst. destruct (H x (or_introl eq_refl)) as [k [Hk1 Hk2]].
  rewrite Hk1. unfold adel_strict. unfold rget in Hk2. rewrite Hk2. apply IH; [exact Hnd'|].
  intros y Hy. destruct (H y (or_intror Hy)) as [k' [Hk1' Hk2']]. exists k'. split; [exact Hk1'|].
  unfold rget. rewrite rget_rdel_ne; [exact Hk2'|]. intros E. subst k'. unfold rget in Hk2'. rewrite Hk2 in Hk2'.
  inversion Hk2'; subst. contradiction.
Qed.
Lemma del_walk_ext : forall sa sb, (forall x, fullpath sa x = fullpath sb x) -> forall T m, del_walk sa T m = del_walk sb T m.
Proof.
  intros sa sb H. induction T as [|x t IH]; intros m; cbn; [reflexivity|].
  rewrite (H x). destruct (fullpath sb x); [|reflexivity]. destruct (adel_strict path_eqb p m); [apply IH | reflexivity].
Qed.
Lemma remove_tree_total : forall s a, Inv s -> reg s a -> exists T m, subtree s a = Some T /\ del_walk s T (allobj s) = Some m.
Proof.
  intros s a HI Ha. destruct (subtree_total s a HI Ha) as [T HT]. exists T.
  destruct (del_walk_total s T (allobj s) (subtree_nodup s a T HI Ha HT)) as [m Hm].
  - intros x Hx. apply (reg_self s HI x). apply (desc_reg_anc s HI a x Ha). eapply subtree_f_desc; [exact HT | exact Hx].
  - exists m. auto.
Qed.

(* ------------------------------------------------------------------ addObject does not raise *)
Lemma add_object_child_total : forall s ob q n pq,
    Inv s -> ob < next s -> ~ reg s ob -> oparent (store s ob) = Some q -> oname (store s ob) = n -> reg s q ->
    fullpath s q = Some pq -> fullpath s ob = Some (pq ++ [n]) ->
    exists s', add_object s ob = Some s'.
Proof.
  intros s ob q n pq HI Hlt Hun Hop Hon Hq Hqp Hobp.
  unfold add_object. rewrite Hop. rewrite Hon.
  set (st1 := upd (store s) q (with_cont (store s q) (cset n ob (ocont (store s q))))).
  assert (Hfp1 : forall x, fullpath (set_store s st1) x = fullpath s x).
  { intros x. unfold fullpath. cbn. apply (st1_fullpath s ob q n). }
  rewrite Hfp1, Hobp. cbn [allobj set_store].
  destruct (rget (pq ++ [n]) (allobj s)) as [prev|] eqn:Ef; [|eauto].
  assert (Hne : prev <> ob) by (intros ->; apply Hun; exists (pq ++ [n]); exact Ef).
  apply N.eqb_neq in Hne. rewrite Hne. clear Hne.
  unfold handle_duplicate. cbn [allobj set_store].
  destruct (find_free_total (allobj s) (pq ++ [n])) as [i Ei]. rewrite Ei.
  apply find_free_spec in Ei. rewrite dup_key_snoc in Ei. unfold key_in in Ei.
  destruct (rget (pq ++ [dup_name n i]) (allobj s)) eqn:Efree; [discriminate|]. clear Ei.
  rewrite Ef.
  assert (Hprev : reg s prev) by (exists (pq ++ [n]); exact Ef).
  destruct (remove_tree_total s prev HI Hprev) as [T [m1 [HT Hm1]]].
  destruct (entry_parent s q pq n prev HI Hq Hqp Ef) as [Hpp Hpn].
  assert (Hnq : ~ anc (store s) prev q) by (eapply anc_parent_absurd; [exact Hpp | apply (inv_I1 s HI); exact Ef]).
  assert (Hin_T : forall x, In x T -> reg s x /\ anc (store s) prev x).
  { intros x Hx. apply (desc_reg_anc s HI prev x Hprev). eapply subtree_f_desc; [exact HT | exact Hx]. }
  assert (HT1 : subtree (set_store s st1) prev = Some T).
  { unfold subtree in *. cbn [depthb store set_store]. apply (subtree_f_local (store s)); [exact HT|].
    intros x Hx. unfold st1. rewrite upd_other; [reflexivity|]. intros ->. apply Hnq. apply (Hin_T q Hx). }
  unfold remove_tree. rewrite HT1. cbn [allobj set_store].
  rewrite (del_walk_ext (set_store s st1) s Hfp1), Hm1.
  assert (Hname : oname (store (set_store s st1) ob) = n).
  { cbn. unfold st1. rewrite upd_other; [exact Hon | intros ->; apply Hun; exact Hq]. }
  rewrite Hname. cbn [store next roots depthb unproc set_store].
  unfold readd_tree.
  match goal with |- context [subtree ?S2 prev] => set (s2 := S2) end.
  assert (HT2 : subtree s2 prev = Some T) by (apply (T2_eq s ob q n prev i T m1 HT1)).
  rewrite HT2. cbn [allobj]. unfold s2 at 2. cbn [allobj].
  destruct (set_walk_total s2 T m1) as [m2 Hm2].
  - intros x Hx. destruct (Hin_T x Hx) as [Hrx Hax]. destruct (reg_self s HI x Hrx) as [px [Hpx _]].
    destruct (fp2_in s ob q n pq HI Hlt Hop Hq Hqp Hobp prev i m1 [] Ef Efree x px Hax Hpx) as [r [_ Hr]].
    eexists. exact Hr.
  - rewrite Hm2. eauto.
Qed.

(* ------------------------------------------------------------------ AddChild *)
Lemma step_add_child_total : forall s c n q k, Inv s -> guard_add_child s c n q -> exists s', step s (AddChild c n q k) = Some s'.
Proof.
  intros s c n q k HI [Hc [Hq [Hqc Hcov]]]. cbn [step]. rewrite Hc.
  destruct (alloc s c n (Some q) k) as [s1 ob] eqn:Ea.
  destruct (alloc_inv _ _ _ _ _ _ _ HI Ea) as [HI1 [Hob [Ha1 [Hr1 [Hun [Hlt [Hst [Hoth Hfp]]]]]]]].
  assert (Hreg : forall x, reg s1 x <-> reg s x) by (intros x; unfold reg; rewrite Ha1; tauto).
  destruct (reg_self s HI q Hq) as [pq [Hpq _]].
  assert (Hdep : depthb s1 = S (depthb s)) by (unfold alloc in Ea; inversion Ea; reflexivity).
  assert (Hqf : fullpath_f (depthb s) (store s1) q = Some pq).
  { rewrite (fullpath_f_frame (store s) (store s1) (reg s)); [exact Hpq | | | exact Hq].
    - intros x p Hx Hp. eapply (inv_par s HI); eauto.
    - intros x Hx. rewrite Hoth; [auto|]. intros E. apply Hun. apply Hreg. rewrite <- E. exact Hx. }
  apply (add_object_child_total s1 ob q n pq HI1 Hlt Hun); try (rewrite Hst; reflexivity).
  - apply Hreg. exact Hq.
  - apply Hfp; assumption.
  - unfold fullpath. rewrite Hdep. replace n with (oname (store s1 ob)) by (rewrite Hst; reflexivity).
    apply (fullpath_f_child_intro _ (store s1) ob q); [rewrite Hst; reflexivity | exact Hqf].
Qed.

(* ------------------------------------------------------------------ AddModule *)
(* the walk over the modules below a replaced module terminates *)
Lemma modtree_f_total : forall s, Inv s -> forall F a p, reg s a -> fullpath s a = Some p ->
    (depthb s < F + length p)%nat -> exists T, modtree_f F (store s) a = Some T.
Proof.
  intros s HI. induction F as [|F IH]; intros a p Ha Hp Hlt.
  - apply fullpath_f_len in Hp. lia.
  - cbn. destruct (oconcat_total (modtree_f F (store s))
                    (map snd (filter (fun nc => is_module (ocl (store s (snd nc)))) (ocont (store s a))))) as [l Hl].
    + intros c Hc. apply in_map_iff in Hc. destruct Hc as [[n c'] [E Hin]]. cbn in E. subst c'.
      apply filter_In in Hin. destruct Hin as [Hin _].
      destruct (inv_cont s HI a n c Ha Hin) as [Hc1 [Hc2 _]].
      apply (IH c (p ++ [oname (store s c)]) Hc1 (reg_child_path s HI c a p Hc1 Hc2 Hp)).
      rewrite app_length. cbn. lia.
    + rewrite Hl. eauto.
Qed.
Lemma modtree_total : forall s a, Inv s -> reg s a -> exists T, modtree_f (S (depthb s)) (store s) a = Some T.
Proof.
  intros s a HI Ha. destruct (reg_self s HI a Ha) as [p [Hp _]].
  apply (modtree_f_total s HI _ a p Ha Hp). apply fullpath_f_len in Hp. lia.
Qed.

Lemma step_add_module_total : forall s pkg n parent, Inv s -> guard_add_module s pkg n parent ->
    exists s', step s (AddModule pkg n parent) = Some s'.
Proof.
  intros s pkg n parent HI Hg. cbn [step].
  destruct (alloc s (if pkg then CPackage else CModule) n parent 0) as [s1 ob] eqn:Ea.
  destruct (alloc_inv _ _ _ _ _ _ _ HI Ea) as [HI1 [Hob [Ha1 [Hr1 [Hun [Hlt [Hst [Hoth Hfp]]]]]]]].
  assert (Hreg : forall x, reg s1 x <-> reg s x) by (intros x; unfold reg; rewrite Ha1; tauto).
  assert (Hdep : depthb s1 = S (depthb s)) by (unfold alloc in Ea; inversion Ea; reflexivity).
  assert (Hcl : ocl (store s1 ob) = if pkg then CPackage else CModule) by (rewrite Hst; reflexivity).
  assert (Hmod : is_module (ocl (store s1 ob)) = true) by (rewrite Hcl; destruct pkg; reflexivity).
  assert (Hcovf : forall first, covered s first -> covered s1 first).
  { intros first Hcov. apply (covered_frame s s1 first HI Ha1); [|exact Hcov].
    intros o Ho. rewrite Hoth; [apply same_core_refl|]. intros E. apply Hun. apply Hreg. rewrite <- E. exact Ho. }
  (* the common part of a replacement: first is removed, the name is free afterwards *)
  assert (Hrepl : forall fn first, fullpath s1 ob = Some fn -> rget fn (allobj s) = Some first -> first <> ob ->
             is_module (ocl (store s first)) = true -> ocls_eqb (ocl (store s first)) CPackage && negb pkg = false ->
             covered s first ->
             (forall st0 rt (r' : list id), (forall x, oname (st0 x) = oname (store s1 x) /\ oparent (st0 x) = oparent (store s1 x) /\
                                                        ocl (st0 x) = ocl (store s1 x)) ->
                forall m1, rget fn m1 = None ->
                exists s', add_object (mkState st0 (next s1) m1 rt (depthb s1) r') ob = Some s') ->
             exists s',
               (if negb (is_module (ocl (store s1 first))) then None
                else if ocls_eqb (ocl (store s1 first)) CPackage && negb (ocls_eqb (ocl (store s1 ob)) CPackage) then Some s1
                else match remove_tree s1 first with
                     | None => None
                     | Some m1 =>
                       match modtree_f (S (depthb s1)) (store s1) first with
                       | None => None
                       | Some mods =>
                         let s0 := set_unproc (set_allobj s1 m1) (fold_left (fun u m => remove1 m u) mods (unproc s1)) in
                         let s1' := match oparent (store s1 first) with
                                    | None => s0
                                    | Some p => match cget (oname (store s1 first)) (ocont (store s1 p)) with
                                                | Some x => if N.eqb x first
                                                            then set_store s0 (upd (store s1) p (with_cont (store s1 p)
                                                                 (cdel (oname (store s1 first)) (ocont (store s1 p)))))
                                                            else s0
                                                | None => s0
                                                end
                                    end in
                         let s2 := mkState (store s1') (next s1') (allobj s1') (remove1 first (roots s1')) (depthb s1') (unproc s1') in
                         match fullpath s2 ob with
                         | None => None
                         | Some fn' => match rget fn' m1 with
                                       | None => add_object (set_unproc s2 (unproc s2 ++ [ob])) ob
                                       | Some _ => None
                                       end
                         end
                       end
                     end) = Some s').
  { intros fn first Hobp Ef Hfne Hmodf Hcond Hcov Hadd.
    rewrite (Hoth first Hfne), Hmodf. cbn [negb]. cbv iota.
    assert (Hcond' : ocls_eqb (ocl (store s first)) CPackage && negb (ocls_eqb (ocl (store s1 ob)) CPackage) = false).
    { rewrite Hcl. destruct pkg; cbn in *; [apply andb_false_r | exact Hcond]. }
    rewrite Hcond'.
    assert (Hf1 : reg s1 first) by (apply Hreg; exists fn; exact Ef).
    destruct (remove_tree_total s1 first HI1 Hf1) as [T [m1 [HT Hm1]]].
    unfold remove_tree. rewrite HT, Hm1.
    destruct (modtree_total s1 first HI1 Hf1) as [mods Hmods]. rewrite Hmods. cbv zeta.
    assert (Ef1 : rget fn (allobj s1) = Some first) by (rewrite Ha1; exact Ef).
    assert (Hfree : rget fn m1 = None).
    { destruct (rget fn m1) as [x|] eqn:E; [|reflexivity]. exfalso.
      apply (del_walk_spec _ _ _ _ Hm1) in E. destruct E as [E1 E2]. rewrite Ef1 in E1. inversion E1; subst x.
      apply (E2 first); [eapply subtree_f_head; exact HT | apply (inv_I1 s1 HI1); exact Ef1]. }
    assert (Hfin : forall st0 rt r r', (forall x, oname (st0 x) = oname (store s1 x) /\ oparent (st0 x) = oparent (store s1 x) /\
                                                  ocl (st0 x) = ocl (store s1 x)) ->
               exists s', match fullpath (mkState st0 (next s1) m1 rt (depthb s1) r) ob with
                          | Some fn' => match rget fn' m1 with
                                        | Some _ => None
                                        | None => add_object (mkState st0 (next s1) m1 rt (depthb s1) r') ob
                                        end
                          | None => None
                          end = Some s').
    { intros st0 rt r r' Hnp. unfold fullpath. cbn [store depthb].
      rewrite (fullpath_f_ext (store s1) st0 (fun x => conj (proj1 (Hnp x)) (proj1 (proj2 (Hnp x))))).
      unfold fullpath in Hobp. rewrite Hobp, Hfree.
      apply (Hadd st0 rt r' Hnp m1 Hfree). }
    destruct (oparent (store s first)) as [p|];
      [destruct (cget (oname (store s first)) (ocont (store s1 p))) as [x|]; [destruct (N.eqb x first)|]|];
      unfold set_unproc, set_allobj, set_store; cbn [store next allobj roots depthb unproc]; apply Hfin; auto.
    intros y. unfold upd. destruct (N.eqb y p) eqn:E; [apply N.eqb_eq in E; subst y; cbn; auto | auto]. }
  unfold add_unprocessed_module.
  destruct parent as [q|]; cbn [guard_add_module] in Hg.
  - destruct Hg as [Hq [Hqp Hdup]].
    destruct (reg_self s HI q Hq) as [pq [Hpq _]].
    assert (Hqne : q <> ob) by (intros E; apply Hun; apply Hreg; rewrite <- E; exact Hq).
    assert (Hqf : fullpath_f (depthb s) (store s1) q = Some pq).
    { rewrite (fullpath_f_frame (store s) (store s1) (reg s)); [exact Hpq | | | exact Hq].
      - intros x p Hx Hp. eapply (inv_par s HI); eauto.
      - intros x Hx. rewrite Hoth; [auto|]. intros E. apply Hun. apply Hreg. rewrite <- E. exact Hx. }
    assert (Hobp : fullpath s1 ob = Some (pq ++ [n])).
    { unfold fullpath. rewrite Hdep. replace n with (oname (store s1 ob)) by (rewrite Hst; reflexivity).
      apply (fullpath_f_child_intro _ (store s1) ob q); [rewrite Hst; reflexivity | exact Hqf]. }
    assert (Hop : oparent (store s1 ob) = Some q) by (rewrite Hst; reflexivity).
    assert (Hon : oname (store s1 ob) = n) by (rewrite Hst; reflexivity).
    rewrite Hobp. rewrite Ha1.
    destruct (rget (pq ++ [n]) (allobj s)) as [first|] eqn:Ef.
    + assert (Hfne : first <> ob) by (intros E; apply Hun; apply Hreg; rewrite <- E; exists (pq ++ [n]); exact Ef).
      destruct (Hdup pq first Hpq Ef) as [[Hfc ->]|[Hmodf [Hcond Hcov]]].
      { rewrite (Hoth first Hfne), Hfc. rewrite Hcl. cbn. eauto. }
      apply (Hrepl (pq ++ [n]) first Hobp Ef Hfne Hmodf Hcond Hcov).
      intros st0 rt r' Hnp m1 Hfree.
      assert (Hf0 : forall F x, fullpath_f F st0 x = fullpath_f F (store s1) x)
        by (intros F x; apply fullpath_f_ext; intros y; destruct (Hnp y) as [A1 [A2 _]]; auto).
      unfold add_object. cbn [store]. destruct (Hnp ob) as [N1 [N2 _]]. rewrite N2, Hop, N1, Hon.
      unfold fullpath. cbn [store depthb set_store].
      rewrite (fullpath_f_ext st0); [|intros y; unfold upd; destruct (N.eqb y q) eqn:E; [apply N.eqb_eq in E; subst y|]; cbn; auto].
      unfold fullpath in Hobp. rewrite Hf0, Hobp. cbn [allobj set_store]. rewrite Hfree. eauto.
    + assert (HI1u : Inv (set_unproc s1 (unproc s1 ++ [ob])))
        by (apply (Inv_frame s1); cbn; auto; try lia; intros; apply same_core_refl).
      apply (add_object_child_total (set_unproc s1 (unproc s1 ++ [ob])) ob q n pq HI1u Hlt Hun Hop Hon).
      * apply Hreg. exact Hq.
      * apply (Hfp q pq Hq Hpq).
      * exact Hobp.
  - assert (Hobp : fullpath s1 ob = Some [n]).
    { unfold fullpath. rewrite Hdep. cbn. rewrite Hst. reflexivity. }
    assert (Hop : oparent (store s1 ob) = None) by (rewrite Hst; reflexivity).
    rewrite Hobp. rewrite Ha1.
    destruct (rget [n] (allobj s)) as [first|] eqn:Ef.
    + assert (Hfne : first <> ob) by (intros E; apply Hun; apply Hreg; rewrite <- E; exists [n]; exact Ef).
      destruct (Hg first eq_refl) as [[Hfc ->]|[Hmodf [Hcond Hcov]]].
      { rewrite (Hoth first Hfne), Hfc. rewrite Hcl. cbn. eauto. }
      apply (Hrepl [n] first Hobp Ef Hfne Hmodf Hcond Hcov).
      intros st0 rt r' Hnp m1 Hfree.
      unfold add_object. cbn [store]. destruct (Hnp ob) as [N1 [N2 N3]]. rewrite N2, Hop, N3, Hmod.
      unfold fullpath. cbn [store depthb].
      rewrite (fullpath_f_ext (store s1) st0 (fun x => conj (proj1 (Hnp x)) (proj1 (proj2 (Hnp x))))).
      unfold fullpath in Hobp. rewrite Hobp.
      cbn [allobj]. rewrite Hfree. eauto.
    + unfold add_object. cbn [store set_unproc]. rewrite Hst. cbn [oparent ocl].
      assert (E : is_module (if pkg then CPackage else CModule) = true) by (destruct pkg; reflexivity). rewrite E.
      unfold fullpath. cbn [store depthb set_unproc]. unfold fullpath in Hobp. rewrite Hobp.
      cbn [allobj set_unproc]. rewrite Ha1, Ef. eauto.
Qed.

(* ------------------------------------------------------------------ Reparent *)
Lemma step_reparent_total : forall s o np nn, Inv s -> guard_reparent s o np nn -> exists s', step s (Reparent o np nn) = Some s'.
Proof.
  intros s o np nn HI [Ho [Hnp [Hnpmod [[oldp [Hopar [Holdcan Hentry]]] [Hnotanc [Hfree [Hcov Hmodpkg]]]]]]].
  cbn [step]. unfold reparent, reparent_tail.
  destruct (remove_tree_total s o HI Ho) as [T [m1 [ET Em1]]].
  unfold remove_tree. rewrite ET, Em1. rewrite Hopar. rewrite Holdcan. cbn [negb]. cbv iota.
  destruct (reg_self s HI o Ho) as [po [Hpo _]]. destruct (reg_self s HI np Hnp) as [pn [Hpn _]].
  assert (Hne1 : o <> oldp) by (intros E; apply (anc_parent_absurd _ _ _ _ _ Hopar Hpo); rewrite <- E; apply anc_refl).
  assert (Hne2 : o <> np) by (intros E; apply Hnotanc; rewrite <- E; apply anc_refl).
  set (st2 := upd (store s) o (with_name (with_parent (store s o) (Some np)) nn)).
  set (d' := S (depthb s + depthb s)).
  assert (Hin_T : forall x, In x T -> reg s x /\ anc (store s) o x).
  { intros x Hx. apply (desc_reg_anc s HI o x Ho). eapply subtree_f_desc; [exact ET | exact Hx]. }
  (* name and parent after the assignment *)
  assert (H2name : forall x, oname (st2 x) = if N.eqb x o then nn else oname (store s x))
    by (intros x; apply (rps_st2 (store s) o np nn x)).
  assert (H2par : forall x, oparent (st2 x) = if N.eqb x o then Some np else oparent (store s x))
    by (intros x; apply (rps_st2 (store s) o np nn x)).
  assert (H2cont : forall x, ocont (st2 x) = ocont (store s x)) by (intros x; apply (rps_st2 (store s) o np nn x)).
  unfold readd_tree at 1.
  assert (HT2 : subtree (mkState st2 (next s) m1 (roots s) d' (unproc s)) o = Some T).
  { unfold subtree in *. cbn [depthb store]. rewrite (subtree_f_ext (store s) st2 H2cont).
    apply (subtree_f_mono _ _ _ _ ET). unfold d'. lia. }
  rewrite HT2. cbn [allobj].
  destruct (set_walk_total (mkState st2 (next s) m1 (roots s) d' (unproc s)) T m1) as [m2 Em2].
  { intros x Hx. destruct (rp_key_T s o np nn pn po HI Ho Hnotanc Hpn Hpo st2 T H2name H2par ET x Hx) as [r [_ Hr]].
    eexists. exact Hr. }
  rewrite Em2.
  (* del old_parent.contents[old_name] *)
  assert (Hdel : exists c3, adel_strict name_eqb (oname (store s o)) (ocont (st2 oldp)) = Some c3).
  { unfold adel_strict. rewrite H2cont. unfold cget in Hentry. rewrite Hentry. eauto. }
  destruct Hdel as [c3 Ec3]. rewrite Ec3. apply adel_strict_some' in Ec3. subst c3. cbn [depthb].
  set (st3 := upd st2 oldp (with_cont (st2 oldp) (adel name_eqb (oname (store s o)) (ocont (st2 oldp))))).
  assert (Hfo2 : fullpath_f d' st2 o = Some (pn ++ [nn])).
  { apply (rp_fp_o s o np nn pn Hnotanc Hpn st2 H2name H2par). apply fullpath_f_len in Hpn. unfold d'. lia. }
  assert (Efno : fullpath_f d' st3 o = Some (pn ++ [nn])).
  { rewrite <- Hfo2. apply (rps_fullpath3 (store s) o np oldp nn). }
  rewrite Efno. cbv beta iota zeta.
  unfold readd_tree.
  match goal with |- context [subtree (mkState ?S _ _ _ _ _) o] => set (st5 := S) end.
  assert (H5name : forall x, oname (st5 x) = if N.eqb x o then nn else oname (store s x))
    by (intros x; apply (rps_name (store s) o np oldp nn (pn ++ [nn]) x)).
  assert (H5par : forall x, oparent (st5 x) = if N.eqb x o then Some np else oparent (store s x))
    by (intros x; apply (rps_par (store s) o np oldp nn (pn ++ [nn]) x)).
  assert (HT5 : subtree (mkState st5 (next s) m2 (roots s) d' (unproc s)) o = Some T).
  { unfold subtree in *. cbn [depthb store] in *. apply (subtree_f_local st2); [exact HT2|].
    intros x Hx. destruct (Hin_T x Hx) as [_ Ha].
    assert (Hxnp : x <> np) by (intros ->; apply Hnotanc; exact Ha).
    assert (Hxop : x <> oldp) by (intros ->; apply (anc_parent_absurd _ _ _ _ _ Hopar Hpo); exact Ha).
    assert (R : ocont (st5 x) = if N.eqb x np then cset nn o
                  (if N.eqb np oldp then cdel (oname (store s o)) (ocont (store s np)) else ocont (store s np))
                else (if N.eqb x oldp then cdel (oname (store s o)) (ocont (store s x)) else ocont (store s x)))
      by (apply (rps_cont (store s) o np oldp nn (pn ++ [nn]) x)).
    rewrite R. apply N.eqb_neq in Hxnp. apply N.eqb_neq in Hxop. rewrite Hxnp, Hxop. rewrite H2cont. reflexivity. }
  rewrite HT5. cbn [allobj].
  destruct (set_walk_total (mkState st5 (next s) m2 (roots s) d' (unproc s)) T m2) as [m3 Em3].
  { intros x Hx. destruct (rp_key_T s o np nn pn po HI Ho Hnotanc Hpn Hpo st5 T H5name H5par ET x Hx) as [r [_ Hr]].
    eexists. exact Hr. }
  rewrite Em3. eauto.
Qed.

(* ------------------------------------------------------------------ every guarded operation completes *)
Lemma step_total : forall s o, Inv s -> guard s o -> exists s', step s o = Some s'.
Proof.
  intros s o HI Hg. destruct o as [pkg n parent|c n q k|o np nn|c bs|]; cbn [guard] in Hg.
  - apply step_add_module_total; assumption.
  - apply step_add_child_total; assumption.
  - apply step_reparent_total; assumption.
  - cbn. eauto.
  - cbn. eauto.
Qed.
