(* Proofs/TokenizerProofs.v -- facts about Spec/PyTokenizer.v alone: how one token's spelling, followed by a
   suitable character, is scanned; literals written by _str_escape/_bytes_escape scan back to their value. *)
From Coq Require Import ZArith NArith List Bool Lia Arith.
From PydoctorVerif Require Import Base.Sexp Base.PyExpr Gen.TablesC15 Model.StrEsc Spec.PyLex Spec.PyGrammar Spec.PyTokenizer
     Proofs.StrEscProofs Model.Wrap Proofs.WrapProofs.
Import ListNotations.
Local Open Scope N_scope.

(* Lx s ts: with fuel at least the length of the text, the lexer answers ts *)
Definition Lx (s : text) (ts : list token) : Prop := forall f, (length s <= f)%nat -> lex f s = Some ts.

Lemma Lx_nil : Lx [] [].
Proof. intros f _. destruct f; reflexivity. Qed.

Lemma Lx_ws c s ts : is_ws c = true -> Lx s ts -> Lx (c :: s) ts.
Proof.
  intros Hc H f Hf. destruct f as [|f]; [cbn in Hf; lia|]. cbn [lex]. rewrite Hc. apply H. cbn in Hf. lia.
Qed.

Lemma Lx_tok c s1 t rest ts :
  is_ws c = false -> scan c s1 = Some (t, rest) -> (length rest <= length s1)%nat -> Lx rest ts -> Lx (c :: s1) (t :: ts).
Proof.
  intros Hc Hs Hl H f Hf. destruct f as [|f]; [cbn in Hf; lia|]. cbn [lex]. rewrite Hc, Hs.
  rewrite H by (cbn in Hf; lia). reflexivity.
Qed.

Lemma Lx_tokenize s ts : Lx s ts -> tokenize s = Some ts.
Proof. intros H. apply H. apply le_n. Qed.

(* ---- characters that may follow an expression: space, newline, and the delimiters/operators the printer writes ---- *)
Definition sep_chars : list N := [32; 10; 44; 41; 93; 125; 40; 91; 58; 61; 45; 43; 42; 47; 37; 60; 62; 124; 94; 38; 64].
Definition sepb (c : N) : bool := existsb (N.eqb c) sep_chars.
Definition fol (rest : text) : bool := match rest with [] => true | c :: _ => sepb c end.

Definition sep_props (c : N) : bool :=
  negb (is_idc c) && negb (is_quote c) && negb (N.eqb c 46) && negb (is_alpha c) && negb (is_digit c).

Lemma sep_facts c : sepb c = true -> sep_props c = true.
Proof.
  intros H. unfold sepb in H. apply existsb_exists in H. destruct H as [k [Hin Hk]]. apply N.eqb_eq in Hk. subst k.
  assert (Hall : forallb sep_props sep_chars = true) by (vm_compute; reflexivity).
  rewrite forallb_forall in Hall. apply Hall. exact Hin.
Qed.

Lemma sep_not_idc c : sepb c = true -> is_idc c = false.
Proof.
  intros H. apply sep_facts in H. unfold sep_props in H. repeat (apply andb_true_iff in H; destruct H as [H ?]).
  apply negb_true_iff in H. exact H.
Qed.
Lemma sep_not_quote c : sepb c = true -> is_quote c = false.
Proof.
  intros H. apply sep_facts in H. unfold sep_props in H. repeat (apply andb_true_iff in H; destruct H as [H ?]).
  apply negb_true_iff. assumption.
Qed.
Lemma sep_not_dot c : sepb c = true -> N.eqb c 46 = false.
Proof.
  intros H. apply sep_facts in H. unfold sep_props in H. repeat (apply andb_true_iff in H; destruct H as [H ?]).
  apply negb_true_iff. assumption.
Qed.

(* ---- spans ---- *)
Lemma span_app p a rest :
  forallb p a = true -> match rest with [] => true | c :: _ => negb (p c) end = true ->
  span p (a ++ rest) = (a, rest).
Proof.
  induction a as [|x a IH]; intros Ha Hr.
  - cbn [app]. destruct rest as [|c rest]; [reflexivity|]. cbn [span]. apply negb_true_iff in Hr. rewrite Hr. reflexivity.
  - cbn [forallb] in Ha. apply andb_true_iff in Ha. destruct Ha as [Hx Ha].
    cbn [app span]. rewrite Hx. rewrite (IH Ha Hr). reflexivity.
Qed.

(* ---- names ---- *)
Lemma word_token_name w : ident_ok w = true -> word_token w = Some (TName w).
Proof.
  destruct w as [|c w']; [discriminate|]. unfold ident_ok. intros H.
  apply andb_true_iff in H. destruct H as [_ H].
  unfold word_token in *.
  repeat match goal with
         | H : context [if ?b then _ else _] |- _ => destruct b; try discriminate
         end.
  reflexivity.
Qed.

Lemma idc_not_sq x : is_idc x = true -> N.eqb x 39 = false.
Proof. intros H. destruct (N.eqb_spec x 39) as [->|]; [discriminate|reflexivity]. Qed.

(* what may follow a word: anything that is neither an identifier character nor a quote *)
Definition wfol (rest : text) : bool :=
  match rest with [] => true | c :: _ => negb (is_idc c) && negb (is_quote c) end.

Lemma fol_wfol rest : fol rest = true -> wfol rest = true.
Proof.
  destruct rest as [|r rest]; [reflexivity|]. cbn [fol wfol]. intros H.
  rewrite (sep_not_idc r H), (sep_not_quote r H). reflexivity.
Qed.

Lemma scan_word c w' rest t :
  is_alpha c = true -> forallb is_idc w' = true -> wfol rest = true -> word_token (c :: w') = Some t ->
  scan c (w' ++ rest) = Some (t, rest).
Proof.
  intros Hc Hw Hf Ht. unfold scan. rewrite Hc.
  assert (H1 : starts_sq rest = false /\ match rest with q :: _ => is_quote q | [] => false end = false
               /\ match rest with [] => true | c0 :: _ => negb (is_idc c0) end = true).
  { destruct rest as [|r rest]; [auto|]. cbn [wfol starts_sq] in *. apply andb_true_iff in Hf. destruct Hf as [Hi Hq].
    apply negb_true_iff in Hq. rewrite Hq, Hi. unfold is_quote in Hq. apply orb_false_iff in Hq. destruct Hq as [Hq _].
    rewrite Hq. auto. }
  destruct H1 as [H1 [H2 H3]].
  assert (Hb : starts_sq (w' ++ rest) = false).
  { destruct w' as [|x w']; [exact H1|]. cbn [app starts_sq forallb] in *.
    apply andb_true_iff in Hw. destruct Hw as [Hx _]. apply idc_not_sq. exact Hx. }
  rewrite Hb. rewrite andb_false_r.
  rewrite (span_app is_idc w' rest Hw H3). rewrite H2. rewrite Ht. reflexivity.
Qed.

(* ---- operators and delimiters ---- *)
Definition opnext (rest : text) : bool :=
  negb (hd_is rest 42) && negb (hd_is rest 47) && negb (hd_is rest 60) && negb (hd_is rest 62)
  && negb (hd_is rest 61).

Lemma opnext_facts rest : opnext rest = true ->
  hd_is rest 42 = false /\ hd_is rest 47 = false /\ hd_is rest 60 = false /\ hd_is rest 62 = false
  /\ hd_is rest 61 = false.
Proof.
  unfold opnext. intros H. repeat (apply andb_true_iff in H; destruct H as [H ?]).
  repeat match goal with H : negb _ = true |- _ => apply negb_true_iff in H end. auto 10.
Qed.

Lemma scan_op o rest :
  opnext rest = true ->
  match optok_text o with
  | c :: w => scan c (w ++ rest) = Some (TOp o, rest)
  | [] => False
  end.
Proof.
  intros H. destruct (opnext_facts rest H) as (H42 & H47 & H60 & H62 & H61).
  destruct o; cbn; rewrite ?H42, ?H47, ?H60, ?H62, ?H61; try reflexivity; unfold op1; rewrite ?H61; reflexivity.
Qed.

Lemma scan_eq rest : hd_is rest 61 = false -> scan 61 rest = Some (TEq, rest).
Proof. intros H. cbn. unfold op1. rewrite H. reflexivity. Qed.

Lemma scan_colon rest : hd_is rest 61 = false -> scan 58 rest = Some (TColon, rest).
Proof. intros H. cbn. unfold op1. rewrite H. reflexivity. Qed.

Lemma scan_dot c rest : is_alpha c = true -> scan 46 (c :: rest) = Some (TDot, c :: rest).
Proof.
  intros H. cbn [scan is_alpha is_digit N.leb N.eqb N.compare Pos.compare Pos.compare_cont andb orb Pos.eqb punct hd_is].
  assert (H46 : N.eqb c 46 = false) by (destruct (N.eqb_spec c 46) as [->|]; [discriminate|reflexivity]).
  assert (Hd : is_digit c = false).
  { unfold is_digit, is_alpha in *. destruct (N.leb_spec 48 c); destruct (N.leb_spec c 57); cbn; try reflexivity.
    exfalso. repeat (apply orb_true_iff in H; destruct H as [H|H]);
      try (apply andb_true_iff in H; destruct H as [Ha Hb]; apply N.leb_le in Ha; apply N.leb_le in Hb; lia);
      try (apply N.eqb_eq in H; lia); try (apply N.leb_le in H; lia). }
  rewrite H46, Hd. reflexivity.
Qed.

Lemma scan_ellipsis rest : hd_is rest 46 = false -> scan 46 (46 :: 46 :: rest) = Some (TLeaf (LConst KEllipsis), rest).
Proof. intros H. cbn. rewrite H. reflexivity. Qed.

(* ---- numbers ---- *)
Lemma teq_eq a b : teq a b = true -> a = b.
Proof.
  revert b. induction a as [|x a IH]; intros [|y b] H; try discriminate; [reflexivity|].
  cbn in H. apply andb_true_iff in H. destruct H as [H1 H2]. apply N.eqb_eq in H1. subst. f_equal. auto.
Qed.

Lemma last_indep (l : list N) y d d' : last (y :: l) d = last (y :: l) d'.
Proof. revert y. induction l as [|z l IH]; intros y; [reflexivity|]. cbn [last] in *. apply IH. Qed.

Lemma nrun_app a : forall prev rest,
  nrun prev a = (a, []) ->
  match rest with
  | [] => true
  | r :: _ => negb (is_idc r) && negb (N.eqb r 46) && negb ((N.eqb r 43 || N.eqb r 45) && is_e (last a prev))
  end = true ->
  nrun prev (a ++ rest) = (a, rest).
Proof.
  induction a as [|x a IH]; intros prev rest Ha Hr.
  - cbn [app]. destruct rest as [|r rest]; [reflexivity|]. cbn [nrun last] in *.
    apply andb_true_iff in Hr. destruct Hr as [Hr H3]. apply andb_true_iff in Hr. destruct Hr as [H1 H2].
    apply negb_true_iff in H1. apply negb_true_iff in H2. apply negb_true_iff in H3. unfold is_e in H3.
    rewrite H1, H2, H3. reflexivity.
  - cbn [app nrun] in *.
    destruct (is_idc x || N.eqb x 46 || (N.eqb x 43 || N.eqb x 45) && (N.eqb prev 101 || N.eqb prev 69)) eqn:E.
    + destruct (nrun x a) as [a1 b1] eqn:E1. inversion Ha; subst.
      rewrite (IH x rest E1); [reflexivity|].
      destruct a as [|y a]; [exact Hr|].
      change (last (x :: y :: a) prev) with (last (y :: a) prev) in Hr.
      rewrite (last_indep a y prev x) in Hr. exact Hr.
    + inversion Ha.
Qed.

Lemma digit_not_alpha c : is_digit c = true -> is_alpha c = false.
Proof.
  unfold is_digit, is_alpha. intros H. apply andb_true_iff in H. destruct H as [H1 H2].
  apply N.leb_le in H1. apply N.leb_le in H2.
  repeat (apply orb_false_iff; split); try (apply andb_false_iff; left; apply N.leb_gt; lia);
    try (apply N.eqb_neq; lia); try (apply N.leb_gt; lia).
Qed.

Lemma scan_number w rest :
  num_ok w = true -> fol rest = true ->
  match w with
  | c :: w' => scan c (w' ++ rest) = Some (TLeaf (LConst (KNum w)), rest)
  | [] => False
  end.
Proof.
  destruct w as [|c w']; [discriminate|]. unfold num_ok. intros H Hf.
  apply andb_true_iff in H. destruct H as [H Hlast]. apply andb_true_iff in H. destruct H as [H Hv].
  apply andb_true_iff in H. destruct H as [Hd Hrun].
  destruct (nrun c w') as [a b] eqn:E. apply andb_true_iff in Hrun. destruct Hrun as [Ha Hb].
  apply teq_eq in Ha. subst a. destruct b; [|discriminate].
  unfold scan. rewrite (digit_not_alpha c Hd), Hd.
  rewrite (nrun_app w' c rest E).
  - rewrite Hv. reflexivity.
  - destruct rest as [|r rest]; [reflexivity|]. cbn [fol] in Hf.
    rewrite (sep_not_idc r Hf), (sep_not_dot r Hf). apply negb_true_iff in Hlast. rewrite Hlast.
    rewrite andb_false_r. reflexivity.
Qed.

(* ---- string literals written by _str_escape ---- *)
Definition encS (c : N) : text := flat_map backslashreplace1 (enc c).

Lemma bsr_id t : existsb is_surrogate t = false -> flat_map backslashreplace1 t = t.
Proof.
  induction t as [|c t IH]; [reflexivity|]. cbn [existsb flat_map]. intros H.
  apply orb_false_iff in H. destruct H as [H1 H2]. unfold backslashreplace1 at 1. rewrite H1. rewrite (IH H2). reflexivity.
Qed.

Lemma str_escape_encS line : str_escape line = flat_map encS line.
Proof.
  unfold str_escape. destruct (existsb is_surrogate (flat_map enc line)) eqn:E.
  - apply flat_map_flat_map.
  - rewrite <- (bsr_id _ E). apply flat_map_flat_map.
Qed.

Definition prep (v : text) (r : option (text * text)) : option (text * text) :=
  match r with Some (v', rest) => Some (v ++ v', rest) | None => None end.

Lemma prep_cons1 c v r : cons1 c (prep v r) = prep (c :: v) r.
Proof. destruct r as [[v' rest]|]; reflexivity. Qed.
Lemma prep_nil r : prep [] r = r.
Proof. destruct r as [[v' rest]|]; reflexivity. Qed.

(* one character of a str value, in either quoting style *)
Lemma encS_step triple c r : lit_scan false triple (encS c ++ r) = cons1 c (lit_scan false triple r).
Proof.
  unfold encS, enc, str_escape_tab. cbn [assoc_esc].
  repeat match goal with
         | |- context [if N.eqb c ?k then _ else _] =>
           destruct (N.eqb_spec c k) as [->|?]; [destruct triple; reflexivity|]
         end.
  assert (Hplain : lit_scan false triple ([c] ++ r) = cons1 c (lit_scan false triple r)).
  { cbn [app lit_scan].
    repeat match goal with
           | H : c <> ?k |- _ => apply N.eqb_neq in H; rewrite ?H; clear H
           end.
    reflexivity. }
  cbn [flat_map]. rewrite app_nil_r. unfold backslashreplace1.
  destruct (is_surrogate c) eqn:Hs; [|exact Hplain].
  cbn [app lit_scan]. cbn [N.eqb Pos.eqb orb andb negb]. rewrite (surrogate_digits c Hs). reflexivity.
Qed.

Lemma str_line_scan triple line r :
  lit_scan false triple (str_escape line ++ r) = prep line (lit_scan false triple r).
Proof.
  rewrite str_escape_encS. induction line as [|c line IH]; [rewrite prep_nil; reflexivity|].
  cbn [flat_map]. rewrite <- app_assoc. rewrite encS_step. rewrite IH. apply prep_cons1.
Qed.

(* one byte of a bytes value *)
Lemma bpiece_scan triple q c r :
  (q = 34 \/ q = 39) -> c < 256 -> lit_scan true triple (bpiece q c ++ r) = cons1 c (lit_scan true triple r).
Proof.
  intros Hq Hc. unfold bpiece, bytes_repr1, DQ, BSL.
  destruct (N.eqb_spec c q) as [->|Hcq].
  - destruct Hq as [->| ->]; destruct triple; reflexivity.
  - cbn [orb]. destruct (N.eqb_spec c 92) as [->|H92]; [destruct Hq as [->| ->]; destruct triple; reflexivity|].
    destruct (N.eqb_spec c 9) as [->|H9]; [destruct Hq as [->| ->]; destruct triple; reflexivity|].
    destruct (N.eqb_spec c 10) as [->|H10]; [destruct Hq as [->| ->]; destruct triple; reflexivity|].
    destruct (N.eqb_spec c 13) as [->|H13]; [destruct Hq as [->| ->]; destruct triple; reflexivity|].
    destruct ((c <? 32) || (127 <=? c)) eqn:E.
    + assert (Hx : lit_scan true triple ([92; 120; hex_digit (c / 16); hex_digit (c mod 16)] ++ r)
                   = cons1 c (lit_scan true triple r)).
      { cbn [app lit_scan]. cbn [N.eqb Pos.eqb orb andb negb].
        rewrite (hex2_digits c Hc). reflexivity. }
      assert (Hd : forall d, d < 16 -> requote1 (hex_digit d) = [hex_digit d]).
      { intros d Hd. unfold requote1, SQ, hex_digit.
        destruct (N.ltb_spec d 10); (replace (N.eqb _ 39) with false by (symmetry; apply N.eqb_neq; lia)); reflexivity. }
      destruct Hq as [->| ->]; cbn [N.eqb Pos.eqb]; [|exact Hx].
      cbn [flat_map]. unfold requote1 at 1 2. cbn [N.eqb Pos.eqb SQ app].
      rewrite (Hd (c / 16)) by (apply N.div_lt_upper_bound; lia).
      rewrite (Hd (c mod 16)) by (apply N.mod_lt; lia).
      rewrite app_nil_r. exact Hx.
    + apply orb_false_iff in E. destruct E as [E1 E2]. apply N.ltb_ge in E1. apply N.leb_gt in E2.
      assert (Hplain : c <> 39 -> lit_scan true triple ([c] ++ r) = cons1 c (lit_scan true triple r)).
      { intros H39. cbn [app lit_scan].
        replace (N.eqb c 39) with false by (symmetry; apply N.eqb_neq; lia).
        replace (N.eqb c 0) with false by (symmetry; apply N.eqb_neq; lia).
        replace (N.eqb c 10) with false by (symmetry; apply N.eqb_neq; lia).
        replace (N.eqb c 13) with false by (symmetry; apply N.eqb_neq; lia).
        replace (N.eqb c 92) with false by (symmetry; apply N.eqb_neq; lia).
        replace (128 <=? c) with false by (symmetry; apply N.leb_gt; lia).
        reflexivity. }
      destruct Hq as [->| ->]; cbn [N.eqb Pos.eqb].
      * cbn [flat_map]. rewrite app_nil_r. unfold requote1, SQ.
        destruct (N.eqb_spec c 39) as [->|H39]; [destruct triple; reflexivity|apply Hplain; exact H39].
      * apply Hplain. exact Hcq.
Qed.

Lemma bytes_line_scan triple line r :
  is_bytes line = true ->
  lit_scan true triple (bytes_escape line ++ r) = prep line (lit_scan true triple r).
Proof.
  intros Hb. rewrite bytes_escape_pieces.
  pose proof (bytes_quote_cases line) as Hq. revert Hq. generalize (bytes_quote line) as q. intros q Hq.
  induction line as [|c line IH]; [rewrite prep_nil; reflexivity|].
  unfold is_bytes in Hb. cbn [forallb] in Hb. apply andb_true_iff in Hb. destruct Hb as [Hc Hb]. apply N.ltb_lt in Hc.
  cbn [flat_map]. rewrite <- app_assoc. rewrite (bpiece_scan triple q c _ Hq Hc). rewrite (IH Hb). apply prep_cons1.
Qed.

(* the lines of a triple-quoted literal, separated by raw newlines *)
Lemma lines_scan (b : bool) (esc : text -> text) lines rest :
  (forall line r, In line lines -> lit_scan b true (esc line ++ r) = prep line (lit_scan b true r)) ->
  lines <> [] ->
  lit_scan b true (join_nl (map esc lines) ++ 39 :: 39 :: 39 :: rest) = Some (join_nl lines, rest).
Proof.
  intros Hesc. induction lines as [|l lines IH]; [congruence|]. intros _.
  destruct lines as [|l2 lines].
  - cbn [map join_nl]. rewrite Hesc by (left; reflexivity). cbn [lit_scan N.eqb Pos.eqb]. cbn. rewrite app_nil_r. reflexivity.
  - change (map esc (l :: l2 :: lines)) with (esc l :: map esc (l2 :: lines)).
    rewrite join_cons_nonempty by discriminate. rewrite (join_cons_nonempty l (l2 :: lines)) by discriminate.
    rewrite <- app_assoc. rewrite Hesc by (left; reflexivity). cbn [app].
    assert (Hn : lit_scan b true (NL :: join_nl (map esc (l2 :: lines)) ++ 39 :: 39 :: 39 :: rest)
                 = cons1 10 (lit_scan b true (join_nl (map esc (l2 :: lines)) ++ 39 :: 39 :: 39 :: rest)))
      by reflexivity.
    rewrite Hn. rewrite IH; [|intros line r Hin; apply Hesc; right; exact Hin|discriminate].
    cbn. reflexivity.
Qed.

(* first character of an escaped body is never a raw quote *)
Lemma encS_head c r : hd_is (encS c ++ r) 39 = false.
Proof.
  unfold encS, enc, str_escape_tab. cbn [assoc_esc].
  repeat match goal with
         | |- context [if N.eqb c ?k then _ else _] => destruct (N.eqb_spec c k) as [->|?]; [reflexivity|]
         end.
  cbn [flat_map]. rewrite app_nil_r. unfold backslashreplace1. destruct (is_surrogate c); [reflexivity|].
  cbn. apply N.eqb_neq. congruence.
Qed.

Lemma str_escape_head line r : hd_is r 39 = false -> hd_is (str_escape line ++ r) 39 = false.
Proof.
  intros H. rewrite str_escape_encS. destruct line as [|c line]; [exact H|].
  cbn [flat_map]. rewrite <- app_assoc. apply encS_head.
Qed.

Lemma bpiece_head q c r : (q = 34 \/ q = 39) -> hd_is (bpiece q c ++ r) 39 = false.
Proof.
  intros Hq. unfold bpiece, bytes_repr1, DQ, BSL.
  destruct (N.eqb_spec c q) as [->|Hcq]; [destruct Hq as [->| ->]; reflexivity|].
  cbn [orb]. destruct (N.eqb_spec c 92) as [->|H92]; [destruct Hq as [->| ->]; reflexivity|].
  destruct (N.eqb c 9); [destruct Hq as [->| ->]; reflexivity|].
  destruct (N.eqb c 10); [destruct Hq as [->| ->]; reflexivity|].
  destruct (N.eqb c 13); [destruct Hq as [->| ->]; reflexivity|].
  destruct ((c <? 32) || (127 <=? c)); [destruct Hq as [->| ->]; reflexivity|].
  destruct Hq as [->| ->]; cbn [N.eqb Pos.eqb flat_map app].
  - unfold requote1, SQ. destruct (N.eqb_spec c 39); [reflexivity|]. cbn. apply N.eqb_neq. assumption.
  - cbn. apply N.eqb_neq. assumption.
Qed.

Lemma bytes_escape_head line r : hd_is r 39 = false -> hd_is (bytes_escape line ++ r) 39 = false.
Proof.
  intros H. rewrite bytes_escape_pieces. destruct line as [|c line]; [exact H|].
  cbn [flat_map]. rewrite <- app_assoc. apply bpiece_head. apply bytes_quote_cases.
Qed.

(* ---- a whole literal, in the two styles _colorize_str writes ---- *)
Definition lit_ok (b : bool) (raw : text) : bool := if b then is_bytes raw else true.

Lemma line_scan b triple line r :
  lit_ok b line = true -> lit_scan b triple (lit_esc b line ++ r) = prep line (lit_scan b triple r).
Proof. destruct b; cbn [lit_ok lit_esc]; intros H; [apply bytes_line_scan; exact H|apply str_line_scan]. Qed.

Lemma lit_esc_head b line r : hd_is r 39 = false -> hd_is (lit_esc b line ++ r) 39 = false.
Proof. destruct b; cbn [lit_esc]; [apply bytes_escape_head|apply str_escape_head]. Qed.

Lemma scan_quoted_single b raw rest :
  lit_ok b raw = true -> hd_is rest 39 = false ->
  scan_quoted b (lit_esc b raw ++ 39 :: rest) = Some (lit_token b raw, rest).
Proof.
  intros Hok Hr. unfold scan_quoted.
  assert (Hno : hd_is (lit_esc b raw ++ 39 :: rest) 39 && hd_is (tl (lit_esc b raw ++ 39 :: rest)) 39 = false).
  { destruct (lit_esc b raw) as [|x l] eqn:E.
    - cbn [app hd_is tl]. rewrite Hr. reflexivity.
    - assert (H : hd_is (lit_esc b raw ++ [0]) 39 = false) by (apply lit_esc_head; reflexivity).
      rewrite E in H. cbn [app hd_is] in *. rewrite H. reflexivity. }
  rewrite Hno. rewrite (line_scan b false raw _ Hok). cbn [lit_scan N.eqb Pos.eqb prep]. rewrite app_nil_r. reflexivity.
Qed.

Lemma is_bytes_lines raw : is_bytes raw = true -> forall line, In line (split_nl raw) -> is_bytes line = true.
Proof.
  induction raw as [|c raw IH]; intros Hb line Hin.
  - cbn in Hin. destruct Hin as [<-|[]]. reflexivity.
  - unfold is_bytes in Hb. cbn [forallb] in Hb. apply andb_true_iff in Hb. destruct Hb as [Hc Hb].
    cbn [split_nl] in Hin. destruct (N.eqb c NL).
    + destruct Hin as [<-|Hin]; [reflexivity|apply IH; assumption].
    + destruct (split_nl raw) as [|h t] eqn:E.
      * destruct Hin as [<-|[]]. unfold is_bytes. cbn. rewrite Hc. reflexivity.
      * destruct Hin as [<-|Hin].
        -- unfold is_bytes. cbn [forallb]. rewrite Hc. apply (IH Hb h). left. reflexivity.
        -- apply (IH Hb line). right. exact Hin.
Qed.

Lemma scan_quoted_triple b raw rest :
  lit_ok b raw = true ->
  scan_quoted b (39 :: 39 :: join_nl (map (lit_esc b) (split_nl raw)) ++ 39 :: 39 :: 39 :: rest) = Some (lit_token b raw, rest).
Proof.
  intros Hok. unfold scan_quoted. cbn [hd_is tl N.eqb Pos.eqb andb].
  rewrite (lines_scan b (lit_esc b) (split_nl raw) rest).
  - rewrite join_split. reflexivity.
  - intros line r Hin. apply line_scan. destruct b; [|reflexivity]. cbn [lit_ok] in *. apply (is_bytes_lines raw Hok line Hin).
  - apply split_nl_nonempty.
Qed.

(* the token, from the first character of the literal *)
Lemma scan_literal_single b raw rest :
  lit_ok b raw = true -> hd_is rest 39 = false ->
  match lit_single b raw ++ rest with
  | c :: s => scan c s = Some (lit_token b raw, rest)
  | [] => False
  end.
Proof.
  intros Hok Hr. unfold lit_single. destruct b; cbn [lit_prefix app].
  - (* b'...' *)
    unfold scan. cbn [is_alpha N.leb N.eqb N.compare Pos.compare Pos.compare_cont andb orb Pos.eqb starts_sq tl].
    rewrite <- app_assoc. cbn [app]. apply (scan_quoted_single true raw rest Hok Hr).
  - unfold scan. cbn [is_alpha is_digit N.leb N.eqb N.compare Pos.compare Pos.compare_cont andb orb Pos.eqb].
    rewrite <- app_assoc. cbn [app]. apply (scan_quoted_single false raw rest Hok Hr).
Qed.

Lemma scan_literal_triple b raw rest :
  lit_ok b raw = true ->
  match lit_triple b raw ++ rest with
  | c :: s => scan c s = Some (lit_token b raw, rest)
  | [] => False
  end.
Proof.
  intros Hok. unfold lit_triple. destruct b; cbn [lit_prefix app].
  - unfold scan. cbn [is_alpha N.leb N.eqb N.compare Pos.compare Pos.compare_cont andb orb Pos.eqb starts_sq tl].
    rewrite <- app_assoc. cbn [app]. apply (scan_quoted_triple true raw rest Hok).
  - unfold scan. cbn [is_alpha is_digit N.leb N.eqb N.compare Pos.compare Pos.compare_cont andb orb Pos.eqb].
    rewrite <- app_assoc. cbn [app]. apply (scan_quoted_triple false raw rest Hok).
Qed.
