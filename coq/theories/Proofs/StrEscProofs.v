(* Proofs/StrEscProofs.v -- _str_escape read back by the string-literal reader of Spec/PyLex.v.
   The escape table is the regenerated Gen/TablesC15.str_escape_tab: dropping or changing an entry breaks enc_step. *)
From Coq Require Import ZArith NArith List Bool Lia.
From PydoctorVerif Require Import Base.Sexp Base.PyExpr Gen.TablesC15 Model.StrEsc Spec.PyLex.
Import ListNotations.
Local Open Scope N_scope.

Lemma hexval_hex_digit d : d < 16 -> hexval (hex_digit d) = Some d.
Proof.
  intros Hd. unfold hex_digit, hexval.
  destruct (N.ltb_spec d 10) as [H|H].
  - replace ((48 <=? 48 + d) && (48 + d <=? 57)) with true
      by (symmetry; apply andb_true_iff; split; apply N.leb_le; lia).
    f_equal. lia.
  - replace ((48 <=? 87 + d) && (87 + d <=? 57)) with false
      by (symmetry; apply andb_false_iff; right; apply N.leb_gt; lia).
    replace ((97 <=? 87 + d) && (87 + d <=? 102)) with true
      by (symmetry; apply andb_true_iff; split; apply N.leb_le; lia).
    f_equal. lia.
Qed.

Lemma surrogate_digits c :
  is_surrogate c = true ->
  hex4 (hex_digit (c / 4096)) (hex_digit ((c / 256) mod 16)) (hex_digit ((c / 16) mod 16)) (hex_digit (c mod 16)) = Some c.
Proof.
  intros H. unfold is_surrogate in H. apply andb_true_iff in H. destruct H as [H1 H2].
  apply N.leb_le in H1. apply N.leb_le in H2.
  assert (Hq : c / 4096 < 16) by (apply N.div_lt_upper_bound; lia).
  unfold hex4, hex2.
  rewrite (hexval_hex_digit (c / 4096)) by exact Hq.
  rewrite (hexval_hex_digit ((c / 256) mod 16)) by (apply N.mod_lt; lia).
  rewrite (hexval_hex_digit ((c / 16) mod 16)) by (apply N.mod_lt; lia).
  rewrite (hexval_hex_digit (c mod 16)) by (apply N.mod_lt; lia).
  f_equal.
  pose proof (N.div_mod c 16 ltac:(lia)) as E1.
  pose proof (N.div_mod (c / 16) 16 ltac:(lia)) as E2.
  pose proof (N.div_mod (c / 256) 16 ltac:(lia)) as E3.
  assert (D1 : c / 16 / 16 = c / 256) by (rewrite N.div_div by lia; reflexivity).
  assert (D2 : c / 256 / 16 = c / 4096) by (rewrite N.div_div by lia; reflexivity).
  rewrite D1 in E2. rewrite D2 in E3.
  lia.
Qed.

(* one source character: whatever follows, the reader gets the character back *)
Lemma enc_step c r :
  c <> 0 -> sq_body (flat_map backslashreplace1 (enc c) ++ r) = cons_opt c (sq_body r)
            /\ (is_surrogate c = false -> sq_body (enc c ++ r) = cons_opt c (sq_body r)).
Proof.
  intros Hc. unfold enc, str_escape_tab. cbn [assoc_esc].
  repeat match goal with
         | |- context [if N.eqb c ?k then _ else _] =>
           destruct (N.eqb_spec c k) as [->|?]; [split; [reflexivity|intros _; reflexivity]|]
         end.
  assert (Hplain : sq_body ([c] ++ r) = cons_opt c (sq_body r)).
  { cbn [app sq_body].
    repeat match goal with
           | H : c <> ?k |- _ => apply N.eqb_neq in H; rewrite ?H; clear H
           end.
    reflexivity. }
  split; [|intros _; exact Hplain].
  cbn [flat_map]. rewrite app_nil_r. unfold backslashreplace1.
  destruct (is_surrogate c) eqn:Hs; [|exact Hplain].
  cbn [app sq_body]. rewrite (surrogate_digits c Hs). reflexivity.
Qed.

Lemma escaped_body (f : N -> text) s :
  (forall c r, c <> 0 -> sq_body (f c ++ r) = cons_opt c (sq_body r)) ->
  forallb (fun c => negb (N.eqb c 0)) s = true ->
  sq_body (flat_map f s ++ [39]) = Some s.
Proof.
  intros Hf. induction s as [|c s IH]; intros Hs.
  - reflexivity.
  - cbn [forallb] in Hs. apply andb_true_iff in Hs. destruct Hs as [Hc Hs].
    apply negb_true_iff in Hc. apply N.eqb_neq in Hc.
    cbn [flat_map]. rewrite <- app_assoc. rewrite Hf by exact Hc. rewrite IH by exact Hs. reflexivity.
Qed.

Lemma flat_map_flat_map {X Y Z : Type} (f : X -> list Y) (g : Y -> list Z) l :
  flat_map g (flat_map f l) = flat_map (fun x => flat_map g (f x)) l.
Proof.
  induction l as [|x l IH]; [reflexivity|]. cbn [flat_map]. rewrite flat_map_app. rewrite IH. reflexivity.
Qed.

(* every code-point string without NUL -- lone surrogates included (the backslashreplace branch) -- reads back *)
Theorem str_escape_roundtrip s :
  forallb (fun c => negb (N.eqb c 0)) s = true -> read_sq (39 :: str_escape s ++ [39]) = Some s.
Proof.
  intros Hs. cbn [read_sq]. unfold str_escape.
  destruct (existsb is_surrogate (flat_map enc s)) eqn:E.
  - rewrite flat_map_flat_map. apply escaped_body; [|exact Hs].
    intros c r Hc. apply (proj1 (enc_step c r Hc)).
  - apply escaped_body; [|exact Hs].
    intros c r Hc.
    (* no surrogate anywhere: in particular not c, which enc leaves alone *)
    destruct (is_surrogate c) eqn:Hsur.
    + (* then enc c = [c] contains one; but this branch is only used pointwise: go through the other reading *)
      pose proof (proj1 (enc_step c r Hc)) as H1.
      assert (He : enc c = [c]).
      { unfold enc, str_escape_tab. cbn [assoc_esc].
        unfold is_surrogate in Hsur. apply andb_true_iff in Hsur. destruct Hsur as [Hlo _]. apply N.leb_le in Hlo.
        repeat match goal with
               | |- context [if N.eqb c ?k then _ else _] => destruct (N.eqb_spec c k) as [->|?]; [lia|]
               end.
        reflexivity. }
      rewrite He in *. cbn [flat_map] in H1. rewrite app_nil_r in H1. unfold backslashreplace1 in H1.
      rewrite Hsur in H1.
      (* the raw surrogate is a plain character for the reader as well *)
      cbn [app sq_body].
      unfold is_surrogate in Hsur. apply andb_true_iff in Hsur. destruct Hsur as [Hlo _]. apply N.leb_le in Hlo.
      replace (N.eqb c 39) with false by (symmetry; apply N.eqb_neq; lia).
      replace (N.eqb c 0) with false by (symmetry; apply N.eqb_neq; lia).
      replace (N.eqb c 10) with false by (symmetry; apply N.eqb_neq; lia).
      replace (N.eqb c 13) with false by (symmetry; apply N.eqb_neq; lia).
      replace (N.eqb c 92) with false by (symmetry; apply N.eqb_neq; lia).
      reflexivity.
    + apply (proj2 (enc_step c r Hc) Hsur).
Qed.

(* when a lone surrogate is present, every surrogate is shown in the \udXXX form and nothing else changes *)
Theorem str_escape_surrogates s :
  existsb is_surrogate (flat_map enc s) = true ->
  str_escape s = flat_map (fun c => flat_map backslashreplace1 (enc c)) s.
Proof. intros E. unfold str_escape. rewrite E. apply flat_map_flat_map. Qed.

(* the escaped text never contains a raw newline or an unescaped quote: it stays one single-quoted token *)
Lemma enc_no_nl c : existsb (N.eqb 10) (enc c) = false.
Proof.
  unfold enc, str_escape_tab. cbn [assoc_esc].
  repeat match goal with
         | |- context [if N.eqb c ?k then _ else _] => destruct (N.eqb_spec c k) as [->|?]; [reflexivity|]
         end.
  cbn [existsb]. rewrite orb_false_r. apply N.eqb_neq. congruence.
Qed.
