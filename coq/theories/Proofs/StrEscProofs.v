(* Proofs/StrEscProofs.v -- _str_escape read back by the string-literal reader of Spec/PyLex.v.
   The escape table is the regenerated Gen/TablesC15.str_escape_tab: dropping or changing an entry breaks enc_step. *)
From Coq Require Import ZArith NArith List Bool Lia.
From PydoctorVerif Require Import Base.Sexp Base.PyExpr Gen.TablesC15 Model.StrEsc Spec.PyLex.
Import ListNotations.
Local Open Scope N_scope.

Lemma hexval_hex_digit d : d < 16 -> hexval (hex_digit d) = Some d.
Proof.
  intros Hd. unfold hex_digit, hexval.
  destruct (N.ltb_spec d 10) as [H|H].
  - replace ((48 <=? 48 + d) && (48 + d <=? 57)) with true
      by (symmetry; apply andb_true_iff; split; apply N.leb_le; lia).
    f_equal. lia.
  - replace ((48 <=? 87 + d) && (87 + d <=? 57)) with false
      by (symmetry; apply andb_false_iff; right; apply N.leb_gt; lia).
    replace ((97 <=? 87 + d) && (87 + d <=? 102)) with true
      by (symmetry; apply andb_true_iff; split; apply N.leb_le; lia).
    f_equal. lia.
Qed.

Lemma surrogate_digits c :
  is_surrogate c = true ->
  hex4 (hex_digit (c / 4096)) (hex_digit ((c / 256) mod 16)) (hex_digit ((c / 16) mod 16)) (hex_digit (c mod 16)) = Some c.
Proof.
  intros H. unfold is_surrogate in H. apply andb_true_iff in H. destruct H as [H1 H2].
  apply N.leb_le in H1. apply N.leb_le in H2.
  assert (Hq : c / 4096 < 16) by (apply N.div_lt_upper_bound; lia).
  unfold hex4, hex2.
  rewrite (hexval_hex_digit (c / 4096)) by exact Hq.
  rewrite (hexval_hex_digit ((c / 256) mod 16)) by (apply N.mod_lt; lia).
  rewrite (hexval_hex_digit ((c / 16) mod 16)) by (apply N.mod_lt; lia).
  rewrite (hexval_hex_digit (c mod 16)) by (apply N.mod_lt; lia).
  f_equal.
  pose proof (N.div_mod c 16 ltac:(lia)) as E1.
  pose proof (N.div_mod (c / 16) 16 ltac:(lia)) as E2.
  pose proof (N.div_mod (c / 256) 16 ltac:(lia)) as E3.
  assert (D1 : c / 16 / 16 = c / 256) by (rewrite N.div_div by lia; reflexivity).
  assert (D2 : c / 256 / 16 = c / 4096) by (rewrite N.div_div by lia; reflexivity).
  rewrite D1 in E2. rewrite D2 in E3.
  lia.
Qed.

(* one source character: whatever follows, the reader gets the character back *)
Lemma enc_step c r :
  sq_body (flat_map backslashreplace1 (enc c) ++ r) = cons_opt c (sq_body r)
  /\ (is_surrogate c = false -> sq_body (enc c ++ r) = cons_opt c (sq_body r)).
Proof.
  unfold enc, str_escape_tab. cbn [assoc_esc].
  repeat match goal with
         | |- context [if N.eqb c ?k then _ else _] =>
           destruct (N.eqb_spec c k) as [->|?]; [split; [reflexivity|intros _; reflexivity]|]
         end.
  assert (Hplain : sq_body ([c] ++ r) = cons_opt c (sq_body r)).
  { cbn [app sq_body].
    repeat match goal with
           | H : c <> ?k |- _ => apply N.eqb_neq in H; rewrite ?H; clear H
           end.
    reflexivity. }
  split; [|intros _; exact Hplain].
  cbn [flat_map]. rewrite app_nil_r. unfold backslashreplace1.
  destruct (is_surrogate c) eqn:Hs; [|exact Hplain].
  cbn [app sq_body]. rewrite (surrogate_digits c Hs). reflexivity.
Qed.

Lemma escaped_body (f : N -> text) s :
  (forall c r, sq_body (f c ++ r) = cons_opt c (sq_body r)) ->
  sq_body (flat_map f s ++ [39]) = Some s.
Proof.
  intros Hf. induction s as [|c s IH].
  - reflexivity.
  - cbn [flat_map]. rewrite <- app_assoc. rewrite Hf. rewrite IH. reflexivity.
Qed.

Lemma flat_map_flat_map {X Y Z : Type} (f : X -> list Y) (g : Y -> list Z) l :
  flat_map g (flat_map f l) = flat_map (fun x => flat_map g (f x)) l.
Proof.
  induction l as [|x l IH]; [reflexivity|]. cbn [flat_map]. rewrite flat_map_app. rewrite IH. reflexivity.
Qed.

(* every code-point string -- NUL and lone surrogates (the backslashreplace branch) included -- reads back *)
Theorem str_escape_roundtrip s : read_sq (39 :: str_escape s ++ [39]) = Some s.
Proof.
  cbn [read_sq]. unfold str_escape.
  destruct (existsb is_surrogate (flat_map enc s)) eqn:E.
  - rewrite flat_map_flat_map. apply escaped_body.
    intros c r. apply (proj1 (enc_step c r)).
  - apply escaped_body.
    intros c r.
    destruct (is_surrogate c) eqn:Hsur.
    + (* a raw surrogate is a plain character for the reader as well *)
      assert (He : enc c = [c]).
      { unfold enc, str_escape_tab. cbn [assoc_esc].
        unfold is_surrogate in Hsur. apply andb_true_iff in Hsur. destruct Hsur as [Hlo _]. apply N.leb_le in Hlo.
        repeat match goal with
               | |- context [if N.eqb c ?k then _ else _] => destruct (N.eqb_spec c k) as [->|?]; [lia|]
               end.
        reflexivity. }
      rewrite He. cbn [app sq_body].
      unfold is_surrogate in Hsur. apply andb_true_iff in Hsur. destruct Hsur as [Hlo _]. apply N.leb_le in Hlo.
      replace (N.eqb c 39) with false by (symmetry; apply N.eqb_neq; lia).
      replace (N.eqb c 0) with false by (symmetry; apply N.eqb_neq; lia).
      replace (N.eqb c 10) with false by (symmetry; apply N.eqb_neq; lia).
      replace (N.eqb c 13) with false by (symmetry; apply N.eqb_neq; lia).
      replace (N.eqb c 92) with false by (symmetry; apply N.eqb_neq; lia).
      reflexivity.
    + apply (proj2 (enc_step c r) Hsur).
Qed.

(* when a lone surrogate is present, every surrogate is shown in the \udXXX form and nothing else changes *)
Theorem str_escape_surrogates s :
  existsb is_surrogate (flat_map enc s) = true ->
  str_escape s = flat_map (fun c => flat_map backslashreplace1 (enc c)) s.
Proof. intros E. unfold str_escape. rewrite E. apply flat_map_flat_map. Qed.

(* the escaped text never contains a raw newline or an unescaped quote: it stays one single-quoted token *)
Lemma enc_no_nl c : existsb (N.eqb 10) (enc c) = false.
Proof.
  unfold enc, str_escape_tab. cbn [assoc_esc].
  repeat match goal with
         | |- context [if N.eqb c ?k then _ else _] => destruct (N.eqb_spec c k) as [->|?]; [reflexivity|]
         end.
  cbn [existsb]. rewrite orb_false_r. apply N.eqb_neq. congruence.
Qed.

(* ------------------------------------------------------------------ _bytes_escape (as repaired by 69ea9c3) *)
Definition bpiece (q c : N) : text :=
  if N.eqb q DQ then flat_map requote1 (bytes_repr1 q c) else bytes_repr1 q c.

Lemma bytes_escape_pieces b : bytes_escape b = flat_map (bpiece (bytes_quote b)) b.
Proof.
  unfold bytes_escape, bpiece. destruct (N.eqb (bytes_quote b) DQ).
  - apply flat_map_flat_map.
  - reflexivity.
Qed.

Lemma hex2_digits c : c < 256 -> hex2 (hex_digit (c / 16)) (hex_digit (c mod 16)) = Some c.
Proof.
  intros H. unfold hex2.
  rewrite (hexval_hex_digit (c / 16)) by (apply N.div_lt_upper_bound; lia).
  rewrite (hexval_hex_digit (c mod 16)) by (apply N.mod_lt; lia).
  f_equal. pose proof (N.div_mod c 16 ltac:(lia)). lia.
Qed.

(* one byte, either quote style: whatever follows, the reader gets the byte back *)
Lemma bpiece_step q c r :
  (q = 34 \/ q = 39) -> c < 256 -> bq_body (bpiece q c ++ r) = cons_opt c (bq_body r).
Proof.
  intros Hq Hc. unfold bpiece, bytes_repr1, DQ, BSL.
  destruct (N.eqb_spec c q) as [->|Hcq].
  - destruct Hq as [->| ->]; reflexivity.
  - cbn [orb]. destruct (N.eqb_spec c 92) as [->|H92]; [destruct Hq as [->| ->]; reflexivity|].
    destruct (N.eqb_spec c 9) as [->|H9]; [destruct Hq as [->| ->]; reflexivity|].
    destruct (N.eqb_spec c 10) as [->|H10]; [destruct Hq as [->| ->]; reflexivity|].
    destruct (N.eqb_spec c 13) as [->|H13]; [destruct Hq as [->| ->]; reflexivity|].
    destruct ((c <? 32) || (127 <=? c)) eqn:E.
    + (* \xhh : the two hex digits are not quotes *)
      assert (Hx : bq_body ([92; 120; hex_digit (c / 16); hex_digit (c mod 16)] ++ r) = cons_opt c (bq_body r)).
      { cbn [app bq_body]. cbn [N.eqb Pos.eqb orb is_octal N.leb N.compare Pos.compare Pos.compare_cont andb].
        rewrite (hex2_digits c Hc). reflexivity. }
      assert (Hd : forall d, d < 16 -> requote1 (hex_digit d) = [hex_digit d]).
      { intros d Hd. unfold requote1, SQ, hex_digit.
        destruct (N.ltb_spec d 10); (replace (N.eqb _ 39) with false by (symmetry; apply N.eqb_neq; lia)); reflexivity. }
      destruct Hq as [->| ->]; cbn [N.eqb Pos.eqb]; [|exact Hx].
      cbn [flat_map]. unfold requote1 at 1 2. cbn [N.eqb Pos.eqb SQ app].
      rewrite (Hd (c / 16)) by (apply N.div_lt_upper_bound; lia).
      rewrite (Hd (c mod 16)) by (apply N.mod_lt; lia).
      rewrite app_nil_r. exact Hx.
    + apply orb_false_iff in E. destruct E as [E1 E2]. apply N.ltb_ge in E1. apply N.leb_gt in E2.
      assert (Hplain : c <> 39 -> bq_body ([c] ++ r) = cons_opt c (bq_body r)).
      { intros H39. cbn [app bq_body].
        replace (N.eqb c 39) with false by (symmetry; apply N.eqb_neq; lia).
        replace (N.eqb c 0) with false by (symmetry; apply N.eqb_neq; lia).
        replace (N.eqb c 10) with false by (symmetry; apply N.eqb_neq; lia).
        replace (N.eqb c 13) with false by (symmetry; apply N.eqb_neq; lia).
        replace (N.eqb c 92) with false by (symmetry; apply N.eqb_neq; lia).
        replace (128 <=? c) with false by (symmetry; apply N.leb_gt; lia).
        reflexivity. }
      destruct Hq as [->| ->]; cbn [N.eqb Pos.eqb].
      * cbn [flat_map]. rewrite app_nil_r. unfold requote1, SQ.
        destruct (N.eqb_spec c 39) as [->|H39]; [reflexivity|apply Hplain; exact H39].
      * apply Hplain. exact Hcq.
Qed.

Lemma bytes_quote_cases raw : bytes_quote raw = 34 \/ bytes_quote raw = 39.
Proof. unfold bytes_quote, DQ, SQ. destruct (existsb (N.eqb 39) raw && negb (existsb (N.eqb 34) raw)); auto. Qed.

(* every byte string reads back from b'<escaped>' *)
Theorem bytes_escape_roundtrip b :
  forallb (fun c => c <? 256) b = true -> read_bq (98 :: 39 :: bytes_escape b ++ [39]) = Some b.
Proof.
  intros Hb. cbn [read_bq]. rewrite bytes_escape_pieces.
  pose proof (bytes_quote_cases b) as Hq. revert Hq. generalize (bytes_quote b) as q. intros q Hq.
  induction b as [|c b IH]; [reflexivity|].
  cbn [forallb] in Hb. apply andb_true_iff in Hb. destruct Hb as [Hc Hb]. apply N.ltb_lt in Hc.
  cbn [flat_map]. rewrite <- app_assoc. rewrite (bpiece_step q c _ Hq Hc). rewrite (IH Hb). reflexivity.
Qed.
