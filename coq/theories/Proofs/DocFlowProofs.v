(* Proofs/DocFlowProofs.v -- lemmas about Model/DocFlow.v for C08. *)
From Coq Require Import ZArith NArith List Bool Lia.
From PydoctorVerif Require Import Base.Sexp Model.DocFlow Spec.DocContract.
Import ListNotations.
Local Open Scope N_scope.

(* ------------------------------------------------------------------ small facts *)
Lemma upd_same {X} (f : oid -> X) o v : upd f o v o = v.
Proof. unfold upd. rewrite N.eqb_refl. reflexivity. Qed.

Lemma upd_other {X} (f : oid -> X) o v x : x <> o -> upd f o v x = f x.
Proof. intros H. unfold upd. destruct (N.eqb_spec x o) as [E|_]; [contradiction|reflexivity]. Qed.

Lemma mem_pe_cons sec o s x l :
  mem_pe sec o ((s, x) :: l) = (N.eqb s sec && N.eqb x o) || mem_pe sec o l.
Proof. reflexivity. Qed.

Lemma same_view_refl o s : same_view o s s.
Proof. repeat split. Qed.

Lemma same_view_sym o a b : same_view o a b -> same_view o b a.
Proof. intros (H1 & H2 & H3). repeat split; auto. Qed.

Lemma same_view_trans o a b c : same_view o a b -> same_view o b c -> same_view o a c.
Proof.
  intros (H1 & H2 & H3) (K1 & K2 & K3).
  split; [congruence|]. split; [congruence|]. intros sec. rewrite H3. apply K3.
Qed.

Lemma touches_only_refl o s : touches_only o s s.
Proof.
  split; [intros; apply same_view_refl|]. exists []. rewrite app_nil_r. split; [reflexivity|constructor].
Qed.

Lemma touches_only_trans o a b c : touches_only o a b -> touches_only o b c -> touches_only o a c.
Proof.
  intros (F1 & d1 & R1 & N1) (F2 & d2 & R2 & N2). split.
  - intros x Hx. eapply same_view_trans; [apply F1|apply F2]; assumption.
  - exists (d1 ++ d2). rewrite R2, R1, app_assoc. split; [reflexivity|].
    apply Forall_app. split; assumption.
Qed.

(* two runs started in states that agree on o: they still agree on o, and appended the same reports *)
Definition step2 (o : oid) (s1 s2 s1' s2' : state) : Prop :=
  same_view o s1' s2' /\ exists d, reports s1' = reports s1 ++ d /\ reports s2' = reports s2 ++ d.

Lemma step2_refl o s1 s2 : same_view o s1 s2 -> step2 o s1 s2 s1 s2.
Proof. intros H. split; [exact H|]. exists []. rewrite !app_nil_r. split; reflexivity. Qed.

Lemma step2_trans o a b a' b' a'' b'' :
  step2 o a b a' b' -> step2 o a' b' a'' b'' -> step2 o a b a'' b''.
Proof.
  intros (_ & d1 & R1 & R1') (V & d2 & R2 & R2'). split; [exact V|].
  exists (d1 ++ d2). rewrite R2, R2', R1, R1', !app_assoc. split; reflexivity.
Qed.

(* ------------------------------------------------------------------ reportErrors *)
Lemma report_errors_nil st w sec : report_errors st w [] sec = st.
Proof. reflexivity. Qed.

Lemma report_errors_known st w errs sec :
  mem_pe sec w (parse_errors st) = true -> report_errors st w errs sec = st.
Proof. intros H. destruct errs; cbn [report_errors]; [reflexivity|]. rewrite H. reflexivity. Qed.

Lemma report_errors_new st w e errs sec :
  mem_pe sec w (parse_errors st) = false ->
  report_errors st w (e :: errs) sec =
  mkState ((sec, w) :: parse_errors st) (reports st ++ map (fun x => (w, sec, x)) (e :: errs)) (pdoc st) (psum st).
Proof. intros H. cbn [report_errors]. rewrite H. reflexivity. Qed.

Lemma report_errors_pdoc st w errs sec : pdoc (report_errors st w errs sec) = pdoc st.
Proof.
  destruct errs; [reflexivity|]. cbn [report_errors].
  destruct (mem_pe sec w (parse_errors st)); reflexivity.
Qed.

Lemma report_errors_psum st w errs sec : psum (report_errors st w errs sec) = psum st.
Proof.
  destruct errs; [reflexivity|]. cbn [report_errors].
  destruct (mem_pe sec w (parse_errors st)); reflexivity.
Qed.

Lemma report_errors_mem_after st w errs sec :
  errs <> [] -> mem_pe sec w (parse_errors (report_errors st w errs sec)) = true.
Proof.
  intros Hne. destruct errs as [|e errs]; [contradiction|]. cbn [report_errors].
  destruct (mem_pe sec w (parse_errors st)) eqn:E; [exact E|].
  cbn [parse_errors]. rewrite mem_pe_cons, !N.eqb_refl. reflexivity.
Qed.

Lemma report_errors_mem_monotone st w errs sec s x :
  mem_pe s x (parse_errors st) = true -> mem_pe s x (parse_errors (report_errors st w errs sec)) = true.
Proof.
  intros H. destruct errs as [|e errs]; [exact H|]. cbn [report_errors].
  destruct (mem_pe sec w (parse_errors st)); [exact H|].
  cbn [parse_errors]. rewrite mem_pe_cons, H. apply orb_true_r.
Qed.

Lemma report_errors_mem_other st w errs sec s x :
  x <> w -> mem_pe s x (parse_errors (report_errors st w errs sec)) = mem_pe s x (parse_errors st).
Proof.
  intros Hx. destruct errs as [|e errs]; [reflexivity|]. cbn [report_errors].
  destruct (mem_pe sec w (parse_errors st)); [reflexivity|].
  cbn [parse_errors]. rewrite mem_pe_cons.
  destruct (N.eqb_spec w x) as [E|_]; [congruence|]. rewrite andb_false_r. reflexivity.
Qed.

Lemma report_errors_idem st w e1 e2 sec :
  e1 <> [] -> report_errors (report_errors st w e1 sec) w e2 sec = report_errors st w e1 sec.
Proof. intros H. apply report_errors_known. apply report_errors_mem_after. exact H. Qed.

Lemma report_errors_reports st w errs sec :
  exists d, reports (report_errors st w errs sec) = reports st ++ d /\ Forall (names w) d /\
            (d = [] \/ (mem_pe sec w (parse_errors st) = false /\ d = map (fun x => (w, sec, x)) errs)).
Proof.
  destruct errs as [|e errs].
  - exists []. rewrite app_nil_r. repeat split; [constructor|left; reflexivity].
  - cbn [report_errors]. destruct (mem_pe sec w (parse_errors st)) eqn:E.
    + exists []. rewrite app_nil_r. repeat split; [constructor|left; reflexivity].
    + exists (map (fun x => (w, sec, x)) (e :: errs)). cbn [reports]. split; [reflexivity|]. split.
      * apply Forall_forall. intros r Hr. apply in_map_iff in Hr. destruct Hr as (x & <- & _). reflexivity.
      * right. split; reflexivity.
Qed.

Lemma report_errors_touches st w errs sec : touches_only w st (report_errors st w errs sec).
Proof.
  split.
  - intros x Hx. repeat split.
    + rewrite report_errors_pdoc. reflexivity.
    + rewrite report_errors_psum. reflexivity.
    + intros s. symmetry. apply report_errors_mem_other. exact Hx.
  - destruct (report_errors_reports st w errs sec) as (d & Hd & Hn & _). exists d. split; assumption.
Qed.

Lemma report_errors_step2 o s1 s2 errs sec :
  same_view o s1 s2 -> step2 o s1 s2 (report_errors s1 o errs sec) (report_errors s2 o errs sec).
Proof.
  intros (Hp & Hs & Hm). destruct errs as [|e errs]; [apply step2_refl; repeat split; assumption|].
  cbn [report_errors]. rewrite <- (Hm sec).
  destruct (mem_pe sec o (parse_errors s1)) eqn:E.
  - apply step2_refl. repeat split; assumption.
  - split.
    + repeat split; cbn [pdoc psum parse_errors]; try assumption.
      intros s. rewrite !mem_pe_cons, Hm. reflexivity.
    + eexists. cbn [reports]. split; reflexivity.
Qed.

(* another object's view is preserved by reporting against w, whatever w's own status *)
Lemma report_errors_view_other x w s1 s2 e1 e2 sec1 sec2 :
  x <> w -> same_view x s1 s2 ->
  same_view x (report_errors s1 w e1 sec1) (report_errors s2 w e2 sec2).
Proof.
  intros Hx (Hp & Hs & Hm). repeat split.
  - rewrite !report_errors_pdoc. exact Hp.
  - rewrite !report_errors_psum. exact Hs.
  - intros s. rewrite !report_errors_mem_other by exact Hx. apply Hm.
Qed.

(* ------------------------------------------------------------------ setters *)
Lemma set_pdoc_touches st o v : touches_only o st (set_pdoc st o v).
Proof.
  split.
  - intros x Hx. repeat split. cbn [set_pdoc pdoc]. rewrite upd_other by exact Hx. reflexivity.
  - exists []. cbn [set_pdoc reports]. rewrite app_nil_r. split; [reflexivity|constructor].
Qed.

Lemma set_psum_touches st o v : touches_only o st (set_psum st o v).
Proof.
  split.
  - intros x Hx. repeat split. cbn [set_psum psum]. rewrite upd_other by exact Hx. reflexivity.
  - exists []. cbn [set_psum reports]. rewrite app_nil_r. split; [reflexivity|constructor].
Qed.

Lemma set_pdoc_step2 o a b a' b' s1 s2 v :
  step2 o a b s1 s2 -> a' = set_pdoc s1 o v -> b' = set_pdoc s2 o v -> step2 o a b a' b'.
Proof.
  intros ((Hp & Hs & Hm) & d & R1 & R2) -> ->. split.
  - repeat split; cbn [set_pdoc pdoc psum parse_errors]; try assumption. rewrite !upd_same. reflexivity.
  - exists d. split; assumption.
Qed.

Lemma set_psum_step2 o a b a' b' s1 s2 v :
  step2 o a b s1 s2 -> a' = set_psum s1 o v -> b' = set_psum s2 o v -> step2 o a b a' b'.
Proof.
  intros ((Hp & Hs & Hm) & d & R1 & R2) -> ->. split.
  - repeat split; cbn [set_psum pdoc psum parse_errors]; try assumption. rewrite !upd_same. reflexivity.
  - exists d. split; assumption.
Qed.

(* ------------------------------------------------------------------ parse_docstring *)
(* what parse_docstring computes apart from the state: the parsed docstring and the errors to report *)
Definition parse_outcome (O : oracles) (c : config) (f : N) (doc : text) : parsed * list perr :=
  match effective_parser O c f doc with
  | PRok p errs => (p, errs)
  | PRpe errs => (PPlain doc, errs)
  | PRexc errs => (PPlain doc, errs ++ [EParseExc])
  end.

Definition chosen_format (c : config) (source : oid) (markup : option N) : N :=
  match markup with Some m => m | None => get_docformat c source end.

Lemma parse_docstring_eq O c st obj doc source markup sec :
  parse_docstring O c st obj doc source markup sec =
  (fst (parse_outcome O c (chosen_format c source markup) doc),
   report_errors st source (snd (parse_outcome O c (chosen_format c source markup) doc)) sec).
Proof.
  unfold parse_docstring, parse_outcome, chosen_format.
  destruct (effective_parser O c _ doc) as [p errs|errs|errs]; cbn [fst snd].
  - destruct errs; reflexivity.
  - destruct errs; reflexivity.
  - destruct (errs ++ [EParseExc]) eqn:E; [destruct errs; discriminate|reflexivity].
Qed.

Lemma get_docformat_applicable c o : get_docformat c o = applicable_format c o.
Proof. reflexivity. Qed.

(* the effective parser raises exactly when the spec says the pipeline gives up *)
Lemma base_parser_known O f t :
  fmt_known f = true -> f <> F_PLAINTEXT ->
  base_parser O f t = match parser O f t with
                      | PR_ok p errs => PRok (PMark p) (map EParser errs)
                      | PR_parse_error errs => PRpe (map EParser errs)
                      | PR_exception errs => PRexc (map EParser errs)
                      end.
Proof.
  intros K P. unfold base_parser. rewrite K.
  destruct (N.eqb_spec f F_PLAINTEXT); [contradiction|reflexivity].
Qed.

Lemma effective_parser_off O c f t :
  processtypes_on c && negb (skip_processtypes f) = false -> effective_parser O c f t = base_parser O f t.
Proof. intros H. unfold effective_parser. rewrite H. reflexivity. Qed.

Lemma effective_parser_on O c f t :
  processtypes_on c && negb (skip_processtypes f) = true ->
  effective_parser O c f t = processtypes_wrap O (base_parser O f) t.
Proof. intros H. unfold effective_parser. rewrite H. reflexivity. Qed.

Lemma gives_up_effective O c f t :
  gives_up O c f t ->
  exists errs, effective_parser O c f t = PRpe errs \/ effective_parser O c f t = PRexc errs.
Proof.
  intros H.
  destruct H as [errs K P E|errs K P E|p errs w K P E Hon Hs Ew|p errs w K P E Hon Hs Ew].
  - exists (map EParser errs). left.
    destruct (processtypes_on c && negb (skip_processtypes f)) eqn:Hf.
    + rewrite (effective_parser_on _ _ _ _ Hf). unfold processtypes_wrap.
      rewrite (base_parser_known _ _ _ K P), E. reflexivity.
    + rewrite (effective_parser_off _ _ _ _ Hf), (base_parser_known _ _ _ K P), E. reflexivity.
  - exists (map EParser errs). right.
    destruct (processtypes_on c && negb (skip_processtypes f)) eqn:Hf.
    + rewrite (effective_parser_on _ _ _ _ Hf). unfold processtypes_wrap.
      rewrite (base_parser_known _ _ _ K P), E. reflexivity.
    + rewrite (effective_parser_off _ _ _ _ Hf), (base_parser_known _ _ _ K P), E. reflexivity.
  - assert (Hf : processtypes_on c && negb (skip_processtypes f) = true) by (rewrite Hon, Hs; reflexivity).
    rewrite (effective_parser_on _ _ _ _ Hf). unfold processtypes_wrap.
    rewrite (base_parser_known _ _ _ K P), E, Ew. eexists. left. reflexivity.
  - assert (Hf : processtypes_on c && negb (skip_processtypes f) = true) by (rewrite Hon, Hs; reflexivity).
    rewrite (effective_parser_on _ _ _ _ Hf). unfold processtypes_wrap.
    rewrite (base_parser_known _ _ _ K P), E, Ew. eexists. right. reflexivity.
Qed.

Lemma gives_up_outcome O c f t :
  gives_up O c f t -> fst (parse_outcome O c f t) = PPlain t.
Proof.
  intros H. destruct (gives_up_effective O c f t H) as (errs & [E|E]); unfold parse_outcome; rewrite E; reflexivity.
Qed.

Lemma gives_up_errs_nonempty O c f t :
  raised_error_is_recorded O -> gives_up O c f t -> snd (parse_outcome O c f t) <> [].
Proof.
  intros (Cp & Ct) H. unfold parse_outcome.
  destruct H as [errs K P E|errs K P E|p errs w K P E Hon Hs Ew|p errs w K P E Hon Hs Ew].
  - pose proof (Cp _ _ _ E) as Hne.
    assert (Hx : effective_parser O c f t = PRpe (map EParser errs)).
    { destruct (processtypes_on c && negb (skip_processtypes f)) eqn:Hf.
      + rewrite (effective_parser_on _ _ _ _ Hf). unfold processtypes_wrap.
        rewrite (base_parser_known _ _ _ K P), E. reflexivity.
      + rewrite (effective_parser_off _ _ _ _ Hf), (base_parser_known _ _ _ K P), E. reflexivity. }
    rewrite Hx. cbn [snd]. destruct errs; [contradiction|discriminate].
  - assert (Hx : effective_parser O c f t = PRexc (map EParser errs)).
    { destruct (processtypes_on c && negb (skip_processtypes f)) eqn:Hf.
      + rewrite (effective_parser_on _ _ _ _ Hf). unfold processtypes_wrap.
        rewrite (base_parser_known _ _ _ K P), E. reflexivity.
      + rewrite (effective_parser_off _ _ _ _ Hf), (base_parser_known _ _ _ K P), E. reflexivity. }
    rewrite Hx. cbn [snd]. intros Hy. apply app_eq_nil in Hy. destruct Hy as [_ Hy]. discriminate.
  - assert (Hf : processtypes_on c && negb (skip_processtypes f) = true) by (rewrite Hon, Hs; reflexivity).
    rewrite (effective_parser_on _ _ _ _ Hf). unfold processtypes_wrap.
    rewrite (base_parser_known _ _ _ K P), E, Ew. cbn [snd]. pose proof (Ct _ _ Ew) as Hne.
    intros Hy. apply app_eq_nil in Hy. destruct Hy as [_ Hy]. destruct w; [contradiction|discriminate].
  - assert (Hf : processtypes_on c && negb (skip_processtypes f) = true) by (rewrite Hon, Hs; reflexivity).
    rewrite (effective_parser_on _ _ _ _ Hf). unfold processtypes_wrap.
    rewrite (base_parser_known _ _ _ K P), E, Ew. cbn [snd].
    intros Hy. apply app_eq_nil in Hy. destruct Hy as [_ Hy]. discriminate.
Qed.

(* a parser exception (not ParseError) is always reported, contract or not *)
Lemma exception_errs_nonempty O c f t errs :
  effective_parser O c f t = PRexc errs -> snd (parse_outcome O c f t) <> [].
Proof.
  intros E. unfold parse_outcome. rewrite E. cbn [snd]. intros Hx. apply app_eq_nil in Hx. destruct Hx; discriminate.
Qed.

(* ------------------------------------------------------------------ ensure_parsed_docstring *)
Definition ensure_spec (O : oracles) (c : config) (st : state) (o : oid) : option oid * state :=
  match docstring c o, pdoc st o with
  | None, None => (None, st)
  | None, Some _ => (parent c o, st)
  | Some [], None => (None, st)
  | Some [], Some _ => (Some o, st)
  | Some (_ :: _), Some _ => (Some o, st)
  | Some (a :: t), None =>
    let r := parse_docstring O c st o (a :: t) o None SEC_DOCSTRING in
    (Some o, set_pdoc (snd r) o (Some (fst r)))
  end.

Lemma ensure_eq O c st o : ensure_parsed_docstring O c st o = ensure_spec O c st o.
Proof.
  unfold ensure_parsed_docstring, ensure_spec, get_docstring.
  destruct (docstring c o) as [[|a t]|] eqn:Hd; destruct (pdoc st o) as [pd|] eqn:Hp; cbn [fst snd];
    try rewrite Hp; try reflexivity.
  destruct (parse_docstring O c st o (a :: t) o None SEC_DOCSTRING) as [pd st'] eqn:E. cbn [fst snd].
  cbn [set_pdoc pdoc]. rewrite upd_same. reflexivity.
Qed.

(* the state after ensure, when a parse happens *)
Definition parsed_state (O : oracles) (c : config) (st : state) (o : oid) (t : text) : state :=
  set_pdoc (report_errors st o (snd (parse_outcome O c (applicable_format c o) t)) SEC_DOCSTRING) o
           (Some (fst (parse_outcome O c (applicable_format c o) t))).

Lemma ensure_fresh O c st o a t :
  docstring c o = Some (a :: t) -> pdoc st o = None ->
  ensure_parsed_docstring O c st o = (Some o, parsed_state O c st o (a :: t)).
Proof.
  intros Hd Hp. rewrite ensure_eq. unfold ensure_spec. rewrite Hd, Hp, parse_docstring_eq. reflexivity.
Qed.

Lemma ensure_cached O c st o pd :
  pdoc st o = Some pd ->
  ensure_parsed_docstring O c st o =
  (match docstring c o with None => parent c o | Some _ => Some o end, st).
Proof.
  intros Hp. rewrite ensure_eq. unfold ensure_spec. rewrite Hp.
  destruct (docstring c o) as [[|a t]|]; reflexivity.
Qed.

Lemma parsed_state_pdoc O c st o t :
  pdoc (parsed_state O c st o t) o = Some (fst (parse_outcome O c (applicable_format c o) t)).
Proof. unfold parsed_state. cbn [set_pdoc pdoc]. apply upd_same. Qed.

Lemma parsed_state_touches O c st o t : touches_only o st (parsed_state O c st o t).
Proof.
  unfold parsed_state. eapply touches_only_trans; [apply report_errors_touches|apply set_pdoc_touches].
Qed.

Lemma parsed_state_step2 O c s1 s2 o t :
  same_view o s1 s2 -> step2 o s1 s2 (parsed_state O c s1 o t) (parsed_state O c s2 o t).
Proof.
  intros H. unfold parsed_state.
  eapply set_pdoc_step2; [apply report_errors_step2; exact H|reflexivity|reflexivity].
Qed.

Lemma ensure_touches O c st o :
  renders_own_docstring c st o ->
  touches_only o st (snd (ensure_parsed_docstring O c st o)) /\
  (fst (ensure_parsed_docstring O c st o) = None \/ fst (ensure_parsed_docstring O c st o) = Some o).
Proof.
  intros Hown. rewrite ensure_eq. unfold ensure_spec.
  destruct (docstring c o) as [[|a t]|] eqn:Hd; destruct (pdoc st o) as [pd|] eqn:Hp; cbn [fst snd];
    try (split; [apply touches_only_refl|auto]; fail).
  - rewrite parse_docstring_eq. cbn [fst snd]. split; [|right; reflexivity].
    change (touches_only o st (parsed_state O c st o (a :: t))). apply parsed_state_touches.
  - destruct Hown as [H|H]; congruence.
Qed.

Lemma ensure_step2 O c s1 s2 o :
  renders_own_docstring c s1 o -> same_view o s1 s2 ->
  fst (ensure_parsed_docstring O c s1 o) = fst (ensure_parsed_docstring O c s2 o) /\
  step2 o s1 s2 (snd (ensure_parsed_docstring O c s1 o)) (snd (ensure_parsed_docstring O c s2 o)).
Proof.
  intros Hown Hv. pose proof Hv as (Hp & _ & _). rewrite !ensure_eq. unfold ensure_spec. rewrite <- Hp.
  destruct (docstring c o) as [[|a t]|] eqn:Hd; destruct (pdoc s1 o) as [pd|] eqn:Hp1; cbn [fst snd];
    try (split; [reflexivity|apply step2_refl; exact Hv]; fail).
  rewrite !parse_docstring_eq. cbn [fst snd]. split; [reflexivity|].
  apply (parsed_state_step2 O c s1 s2 o (a :: t) Hv).
Qed.

Lemma ensure_keeps_own O c st o :
  renders_own_docstring c st o -> renders_own_docstring c (snd (ensure_parsed_docstring O c st o)) o.
Proof.
  intros [H|H]; [left; exact H|]. rewrite ensure_eq. unfold ensure_spec, renders_own_docstring. rewrite H.
  destruct (docstring c o) as [[|a t]|] eqn:Hd; cbn [snd]; try (right; exact H); left; congruence.
Qed.

(* ------------------------------------------------------------------ safe_to_stan *)
Lemma safe_to_stan_ok O c st pd ctx fb rep sec s :
  to_stan_p O pd = Some s -> safe_to_stan O c st pd ctx fb rep sec = (s, st).
Proof. intros H. unfold safe_to_stan. rewrite H. reflexivity. Qed.

Lemma safe_to_stan_fail O c st pd ctx fb rep sec :
  to_stan_p O pd = None ->
  safe_to_stan O c st pd ctx fb rep sec =
  (fst (run_fallback c fb ctx st),
   if rep then report_errors (snd (run_fallback c fb ctx st)) ctx [EToStanExc] sec else snd (run_fallback c fb ctx st)).
Proof.
  intros H. unfold safe_to_stan. rewrite H. destruct (run_fallback c fb ctx st). reflexivity.
Qed.

Lemma run_fallback_touches c fb ctx st : touches_only ctx st (snd (run_fallback c fb ctx st)).
Proof.
  destruct fb; cbn [run_fallback snd]; [apply touches_only_refl|apply set_psum_touches|apply touches_only_refl].
Qed.

Lemma safe_to_stan_touches O c st pd ctx fb rep sec :
  touches_only ctx st (snd (safe_to_stan O c st pd ctx fb rep sec)).
Proof.
  destruct (to_stan_p O pd) as [s|] eqn:E.
  - rewrite (safe_to_stan_ok _ _ _ _ _ _ _ _ _ E). apply touches_only_refl.
  - rewrite (safe_to_stan_fail _ _ _ _ _ _ _ _ E). cbn [snd].
    destruct rep; [eapply touches_only_trans; [apply run_fallback_touches|apply report_errors_touches]
                  |apply run_fallback_touches].
Qed.

Lemma run_fallback_step2 c fb o s1 s2 :
  same_view o s1 s2 ->
  fst (run_fallback c fb o s1) = fst (run_fallback c fb o s2) /\
  step2 o s1 s2 (snd (run_fallback c fb o s1)) (snd (run_fallback c fb o s2)).
Proof.
  intros H. destruct fb; cbn [run_fallback fst snd]; (split; [reflexivity|]).
  - apply step2_refl. exact H.
  - eapply set_psum_step2; [apply step2_refl; exact H|reflexivity|reflexivity].
  - apply step2_refl. exact H.
Qed.

Lemma safe_to_stan_step2 O c s1 s2 pd o fb rep sec :
  same_view o s1 s2 ->
  fst (safe_to_stan O c s1 pd o fb rep sec) = fst (safe_to_stan O c s2 pd o fb rep sec) /\
  step2 o s1 s2 (snd (safe_to_stan O c s1 pd o fb rep sec)) (snd (safe_to_stan O c s2 pd o fb rep sec)).
Proof.
  intros H. destruct (to_stan_p O pd) as [s|] eqn:E.
  - rewrite !(safe_to_stan_ok _ _ _ _ _ _ _ _ _ E). split; [reflexivity|apply step2_refl; exact H].
  - rewrite !(safe_to_stan_fail _ _ _ _ _ _ _ _ E). cbn [fst snd].
    destruct (run_fallback_step2 c fb o s1 s2 H) as (Hf & Hs). split; [exact Hf|].
    destruct rep; [|exact Hs].
    eapply step2_trans; [exact Hs|]. apply report_errors_step2. apply Hs.
Qed.

(* ------------------------------------------------------------------ format_fields *)
Lemma format_fields_touches O c st src fs : touches_only src st (snd (format_fields O c st src fs)).
Proof.
  revert st. induction fs as [|f fs IH]; intros st; cbn [format_fields].
  - apply touches_only_refl.
  - pose proof (safe_to_stan_touches O c st (PMark f) src FB_broken true SEC_DOCSTRING) as H1.
    destruct (safe_to_stan O c st (PMark f) src FB_broken true SEC_DOCSTRING) as [s st1]. cbn [snd] in H1.
    pose proof (IH st1) as H2. destruct (format_fields O c st1 src fs) as [ss st2]. cbn [snd] in *.
    eapply touches_only_trans; eassumption.
Qed.

Lemma format_fields_step2 O c s1 s2 o fs :
  same_view o s1 s2 ->
  fst (format_fields O c s1 o fs) = fst (format_fields O c s2 o fs) /\
  step2 o s1 s2 (snd (format_fields O c s1 o fs)) (snd (format_fields O c s2 o fs)).
Proof.
  revert s1 s2. induction fs as [|f fs IH]; intros s1 s2 H; cbn [format_fields].
  - split; [reflexivity|apply step2_refl; exact H].
  - destruct (safe_to_stan_step2 O c s1 s2 (PMark f) o FB_broken true SEC_DOCSTRING H) as (Hf & Hs).
    destruct (safe_to_stan O c s1 (PMark f) o FB_broken true SEC_DOCSTRING) as [x1 t1].
    destruct (safe_to_stan O c s2 (PMark f) o FB_broken true SEC_DOCSTRING) as [x2 t2].
    cbn [fst snd] in *. subst x2.
    destruct (IH t1 t2 (proj1 Hs)) as (Hf2 & Hs2).
    destruct (format_fields O c t1 o fs) as [y1 u1]. destruct (format_fields O c t2 o fs) as [y2 u2].
    cbn [fst snd] in *. subst y2. split; [reflexivity|]. eapply step2_trans; eassumption.
Qed.

(* once the object is in parse_errors[docstring], rendering fields reports nothing more *)
Lemma format_fields_quiet O c st src fs :
  mem_pe SEC_DOCSTRING src (parse_errors st) = true ->
  reports (snd (format_fields O c st src fs)) = reports st /\
  parse_errors (snd (format_fields O c st src fs)) = parse_errors st /\
  pdoc (snd (format_fields O c st src fs)) = pdoc st /\ psum (snd (format_fields O c st src fs)) = psum st.
Proof.
  revert st. induction fs as [|f fs IH]; intros st Hm; cbn [format_fields]; [repeat split|].
  destruct (to_stan_p O (PMark f)) as [s|] eqn:E.
  - rewrite (safe_to_stan_ok _ _ _ _ _ _ _ _ _ E).
    specialize (IH st Hm). destruct (format_fields O c st src fs). exact IH.
  - rewrite (safe_to_stan_fail _ _ _ _ _ _ _ _ E). cbn [run_fallback fst snd].
    rewrite (report_errors_known _ _ _ _ Hm).
    specialize (IH st Hm). destruct (format_fields O c st src fs). exact IH.
Qed.
