(* Proofs/DocFlowProofs.v -- lemmas about Model/DocFlow.v for C08. *)
From Coq Require Import ZArith NArith List Bool Lia.
From PydoctorVerif Require Import Base.Sexp Model.DocFlow Spec.DocContract.
Import ListNotations.
Local Open Scope N_scope.

(* ------------------------------------------------------------------ small facts *)
Lemma upd_same {X} (f : oid -> X) o v : upd f o v o = v.
Proof. unfold upd. rewrite N.eqb_refl. reflexivity. Qed.

Lemma upd_other {X} (f : oid -> X) o v x : x <> o -> upd f o v x = f x.
Proof. intros H. unfold upd. destruct (N.eqb_spec x o) as [E|_]; [contradiction|reflexivity]. Qed.

Lemma mem_pe_cons sec o s x l :
  mem_pe sec o ((s, x) :: l) = (N.eqb s sec && N.eqb x o) || mem_pe sec o l.
Proof. reflexivity. Qed.

Lemma same_view_refl o s : same_view o s s.
Proof. repeat split. Qed.

Lemma same_view_sym o a b : same_view o a b -> same_view o b a.
Proof. intros (H1 & H2 & H3). repeat split; auto. Qed.

Lemma same_view_trans o a b c : same_view o a b -> same_view o b c -> same_view o a c.
Proof.
  intros (H1 & H2 & H3) (K1 & K2 & K3).
  split; [congruence|]. split; [congruence|]. intros sec. rewrite H3. apply K3.
Qed.

Lemma touches_only_refl o s : touches_only o s s.
Proof.
  split; [intros; apply same_view_refl|]. exists []. rewrite app_nil_r. split; [reflexivity|constructor].
Qed.

Lemma touches_only_trans o a b c : touches_only o a b -> touches_only o b c -> touches_only o a c.
Proof.
  intros (F1 & d1 & R1 & N1) (F2 & d2 & R2 & N2). split.
  - intros x Hx. eapply same_view_trans; [apply F1|apply F2]; assumption.
  - exists (d1 ++ d2). rewrite R2, R1, app_assoc. split; [reflexivity|].
    apply Forall_app. split; assumption.
Qed.

(* two runs started in states that agree on o: they still agree on o, and appended the same reports *)
Definition step2 (o : oid) (s1 s2 s1' s2' : state) : Prop :=
  same_view o s1' s2' /\ exists d, reports s1' = reports s1 ++ d /\ reports s2' = reports s2 ++ d.

Lemma step2_refl o s1 s2 : same_view o s1 s2 -> step2 o s1 s2 s1 s2.
Proof. intros H. split; [exact H|]. exists []. rewrite !app_nil_r. split; reflexivity. Qed.

Lemma step2_trans o a b a' b' a'' b'' :
  step2 o a b a' b' -> step2 o a' b' a'' b'' -> step2 o a b a'' b''.
Proof.
  intros (_ & d1 & R1 & R1') (V & d2 & R2 & R2'). split; [exact V|].
  exists (d1 ++ d2). rewrite R2, R2', R1, R1', !app_assoc. split; reflexivity.
Qed.

(* ------------------------------------------------------------------ reportErrors *)
Lemma report_errors_nil st w sec : report_errors st w [] sec = st.
Proof. reflexivity. Qed.

Lemma report_errors_known st w errs sec :
  mem_pe sec w (parse_errors st) = true -> report_errors st w errs sec = st.
Proof. intros H. destruct errs; cbn [report_errors]; [reflexivity|]. rewrite H. reflexivity. Qed.

Lemma report_errors_new st w e errs sec :
  mem_pe sec w (parse_errors st) = false ->
  report_errors st w (e :: errs) sec =
  mkState ((sec, w) :: parse_errors st) (reports st ++ map (fun x => (w, sec, x)) (e :: errs)) (pdoc st) (psum st).
Proof. intros H. cbn [report_errors]. rewrite H. reflexivity. Qed.

Lemma report_errors_pdoc st w errs sec : pdoc (report_errors st w errs sec) = pdoc st.
Proof.
  destruct errs; [reflexivity|]. cbn [report_errors].
  destruct (mem_pe sec w (parse_errors st)); reflexivity.
Qed.

Lemma report_errors_psum st w errs sec : psum (report_errors st w errs sec) = psum st.
Proof.
  destruct errs; [reflexivity|]. cbn [report_errors].
  destruct (mem_pe sec w (parse_errors st)); reflexivity.
Qed.

Lemma report_errors_mem_after st w errs sec :
  errs <> [] -> mem_pe sec w (parse_errors (report_errors st w errs sec)) = true.
Proof.
  intros Hne. destruct errs as [|e errs]; [contradiction|]. cbn [report_errors].
  destruct (mem_pe sec w (parse_errors st)) eqn:E; [exact E|].
  cbn [parse_errors]. rewrite mem_pe_cons, !N.eqb_refl. reflexivity.
Qed.

Lemma report_errors_mem_monotone st w errs sec s x :
  mem_pe s x (parse_errors st) = true -> mem_pe s x (parse_errors (report_errors st w errs sec)) = true.
Proof.
  intros H. destruct errs as [|e errs]; [exact H|]. cbn [report_errors].
  destruct (mem_pe sec w (parse_errors st)); [exact H|].
  cbn [parse_errors]. rewrite mem_pe_cons, H. apply orb_true_r.
Qed.

Lemma report_errors_mem_other st w errs sec s x :
  x <> w -> mem_pe s x (parse_errors (report_errors st w errs sec)) = mem_pe s x (parse_errors st).
Proof.
  intros Hx. destruct errs as [|e errs]; [reflexivity|]. cbn [report_errors].
  destruct (mem_pe sec w (parse_errors st)); [reflexivity|].
  cbn [parse_errors]. rewrite mem_pe_cons.
  destruct (N.eqb_spec w x) as [E|_]; [congruence|]. rewrite andb_false_r. reflexivity.
Qed.

Lemma report_errors_idem st w e1 e2 sec :
  e1 <> [] -> report_errors (report_errors st w e1 sec) w e2 sec = report_errors st w e1 sec.
Proof. intros H. apply report_errors_known. apply report_errors_mem_after. exact H. Qed.

Lemma report_errors_reports st w errs sec :
  exists d, reports (report_errors st w errs sec) = reports st ++ d /\ Forall (names w) d /\
            (d = [] \/ (mem_pe sec w (parse_errors st) = false /\ d = map (fun x => (w, sec, x)) errs)).
Proof.
  destruct errs as [|e errs].
  - exists []. rewrite app_nil_r. repeat split; [constructor|left; reflexivity].
  - cbn [report_errors]. destruct (mem_pe sec w (parse_errors st)) eqn:E.
    + exists []. rewrite app_nil_r. repeat split; [constructor|left; reflexivity].
    + exists (map (fun x => (w, sec, x)) (e :: errs)). cbn [reports]. split; [reflexivity|]. split.
      * apply Forall_forall. intros r Hr. apply in_map_iff in Hr. destruct Hr as (x & <- & _). reflexivity.
      * right. split; reflexivity.
Qed.

Lemma report_errors_touches st w errs sec : touches_only w st (report_errors st w errs sec).
Proof.
  split.
  - intros x Hx. repeat split.
    + rewrite report_errors_pdoc. reflexivity.
    + rewrite report_errors_psum. reflexivity.
    + intros s. symmetry. apply report_errors_mem_other. exact Hx.
  - destruct (report_errors_reports st w errs sec) as (d & Hd & Hn & _). exists d. split; assumption.
Qed.

Lemma report_errors_step2 o s1 s2 errs sec :
  same_view o s1 s2 -> step2 o s1 s2 (report_errors s1 o errs sec) (report_errors s2 o errs sec).
Proof.
  intros (Hp & Hs & Hm). destruct errs as [|e errs]; [apply step2_refl; repeat split; assumption|].
  cbn [report_errors]. rewrite <- (Hm sec).
  destruct (mem_pe sec o (parse_errors s1)) eqn:E.
  - apply step2_refl. repeat split; assumption.
  - split.
    + repeat split; cbn [pdoc psum parse_errors]; try assumption.
      intros s. rewrite !mem_pe_cons, Hm. reflexivity.
    + eexists. cbn [reports]. split; reflexivity.
Qed.

(* another object's view is preserved by reporting against w, whatever w's own status *)
Lemma report_errors_view_other x w s1 s2 e1 e2 sec1 sec2 :
  x <> w -> same_view x s1 s2 ->
  same_view x (report_errors s1 w e1 sec1) (report_errors s2 w e2 sec2).
Proof.
  intros Hx (Hp & Hs & Hm). repeat split.
  - rewrite !report_errors_pdoc. exact Hp.
  - rewrite !report_errors_psum. exact Hs.
  - intros s. rewrite !report_errors_mem_other by exact Hx. apply Hm.
Qed.

(* ------------------------------------------------------------------ setters *)
Lemma set_pdoc_touches st o v : touches_only o st (set_pdoc st o v).
Proof.
  split.
  - intros x Hx. repeat split. cbn [set_pdoc pdoc]. rewrite upd_other by exact Hx. reflexivity.
  - exists []. cbn [set_pdoc reports]. rewrite app_nil_r. split; [reflexivity|constructor].
Qed.

Lemma set_psum_touches st o v : touches_only o st (set_psum st o v).
Proof.
  split.
  - intros x Hx. repeat split. cbn [set_psum psum]. rewrite upd_other by exact Hx. reflexivity.
  - exists []. cbn [set_psum reports]. rewrite app_nil_r. split; [reflexivity|constructor].
Qed.

Lemma set_pdoc_step2 o a b a' b' s1 s2 v :
  step2 o a b s1 s2 -> a' = set_pdoc s1 o v -> b' = set_pdoc s2 o v -> step2 o a b a' b'.
Proof.
  intros ((Hp & Hs & Hm) & d & R1 & R2) -> ->. split.
  - repeat split; cbn [set_pdoc pdoc psum parse_errors]; try assumption. rewrite !upd_same. reflexivity.
  - exists d. split; assumption.
Qed.

Lemma set_psum_step2 o a b a' b' s1 s2 v :
  step2 o a b s1 s2 -> a' = set_psum s1 o v -> b' = set_psum s2 o v -> step2 o a b a' b'.
Proof.
  intros ((Hp & Hs & Hm) & d & R1 & R2) -> ->. split.
  - repeat split; cbn [set_psum pdoc psum parse_errors]; try assumption. rewrite !upd_same. reflexivity.
  - exists d. split; assumption.
Qed.

(* ------------------------------------------------------------------ parse_docstring *)
(* what parse_docstring computes apart from the state: the parsed docstring and the errors to report *)
Definition parse_outcome (O : oracles) (c : config) (f : N) (doc : text) : parsed * list perr :=
  match effective_parser O c f doc with
  | PRok p errs => (p, errs)
  | PRpe errs => (PPlain doc, errs)
  | PRexc errs => (PPlain doc, errs ++ [EParseExc])
  end.

Definition chosen_format (c : config) (source : oid) (markup : option N) : N :=
  match markup with Some m => m | None => get_docformat c source end.

Lemma parse_docstring_eq O c st obj doc source markup sec :
  parse_docstring O c st obj doc source markup sec =
  (fst (parse_outcome O c (chosen_format c source markup) doc),
   report_errors st source (snd (parse_outcome O c (chosen_format c source markup) doc)) sec).
Proof.
  unfold parse_docstring, parse_outcome, chosen_format.
  destruct (effective_parser O c _ doc) as [p errs|errs|errs]; cbn [fst snd].
  - destruct errs; reflexivity.
  - destruct errs; reflexivity.
  - destruct (errs ++ [EParseExc]) eqn:E; [destruct errs; discriminate|reflexivity].
Qed.

Lemma get_docformat_applicable c o : get_docformat c o = applicable_format c o.
Proof. reflexivity. Qed.

(* the effective parser raises exactly when the spec says the pipeline gives up *)
Lemma base_parser_known O f t :
  fmt_known f = true -> f <> F_PLAINTEXT ->
  base_parser O f t = match parser O f t with
                      | PR_ok p errs => PRok (PMark p) (map EParser errs)
                      | PR_parse_error errs => PRpe (map EParser errs)
                      | PR_exception errs => PRexc (map EParser errs)
                      end.
Proof.
  intros K P. unfold base_parser. rewrite K.
  destruct (N.eqb_spec f F_PLAINTEXT); [contradiction|reflexivity].
Qed.

Lemma effective_parser_off O c f t :
  processtypes_on c && negb (skip_processtypes f) = false -> effective_parser O c f t = base_parser O f t.
Proof. intros H. unfold effective_parser. rewrite H. reflexivity. Qed.

Lemma effective_parser_on O c f t :
  processtypes_on c && negb (skip_processtypes f) = true ->
  effective_parser O c f t = processtypes_wrap O (base_parser O f) t.
Proof. intros H. unfold effective_parser. rewrite H. reflexivity. Qed.

Lemma gives_up_effective O c f t :
  gives_up O c f t ->
  exists errs, effective_parser O c f t = PRpe errs \/ effective_parser O c f t = PRexc errs.
Proof.
  intros H.
  destruct H as [errs K P E|errs K P E|p errs w K P E Hon Hs Ew|p errs w K P E Hon Hs Ew].
  - exists (map EParser errs). left.
    destruct (processtypes_on c && negb (skip_processtypes f)) eqn:Hf.
    + rewrite (effective_parser_on _ _ _ _ Hf). unfold processtypes_wrap.
      rewrite (base_parser_known _ _ _ K P), E. reflexivity.
    + rewrite (effective_parser_off _ _ _ _ Hf), (base_parser_known _ _ _ K P), E. reflexivity.
  - exists (map EParser errs). right.
    destruct (processtypes_on c && negb (skip_processtypes f)) eqn:Hf.
    + rewrite (effective_parser_on _ _ _ _ Hf). unfold processtypes_wrap.
      rewrite (base_parser_known _ _ _ K P), E. reflexivity.
    + rewrite (effective_parser_off _ _ _ _ Hf), (base_parser_known _ _ _ K P), E. reflexivity.
  - assert (Hf : processtypes_on c && negb (skip_processtypes f) = true) by (rewrite Hon, Hs; reflexivity).
    rewrite (effective_parser_on _ _ _ _ Hf). unfold processtypes_wrap.
    rewrite (base_parser_known _ _ _ K P), E, Ew. eexists. left. reflexivity.
  - assert (Hf : processtypes_on c && negb (skip_processtypes f) = true) by (rewrite Hon, Hs; reflexivity).
    rewrite (effective_parser_on _ _ _ _ Hf). unfold processtypes_wrap.
    rewrite (base_parser_known _ _ _ K P), E, Ew. eexists. right. reflexivity.
Qed.

Lemma gives_up_outcome O c f t :
  gives_up O c f t -> fst (parse_outcome O c f t) = PPlain t.
Proof.
  intros H. destruct (gives_up_effective O c f t H) as (errs & [E|E]); unfold parse_outcome; rewrite E; reflexivity.
Qed.

Lemma gives_up_errs_nonempty O c f t :
  raised_error_is_recorded O -> gives_up O c f t -> snd (parse_outcome O c f t) <> [].
Proof.
  intros (Cp & Ct) H. unfold parse_outcome.
  destruct H as [errs K P E|errs K P E|p errs w K P E Hon Hs Ew|p errs w K P E Hon Hs Ew].
  - pose proof (Cp _ _ _ E) as Hne.
    assert (Hx : effective_parser O c f t = PRpe (map EParser errs)).
    { destruct (processtypes_on c && negb (skip_processtypes f)) eqn:Hf.
      + rewrite (effective_parser_on _ _ _ _ Hf). unfold processtypes_wrap.
        rewrite (base_parser_known _ _ _ K P), E. reflexivity.
      + rewrite (effective_parser_off _ _ _ _ Hf), (base_parser_known _ _ _ K P), E. reflexivity. }
    rewrite Hx. cbn [snd]. destruct errs; [contradiction|discriminate].
  - assert (Hx : effective_parser O c f t = PRexc (map EParser errs)).
    { destruct (processtypes_on c && negb (skip_processtypes f)) eqn:Hf.
      + rewrite (effective_parser_on _ _ _ _ Hf). unfold processtypes_wrap.
        rewrite (base_parser_known _ _ _ K P), E. reflexivity.
      + rewrite (effective_parser_off _ _ _ _ Hf), (base_parser_known _ _ _ K P), E. reflexivity. }
    rewrite Hx. cbn [snd]. intros Hy. apply app_eq_nil in Hy. destruct Hy as [_ Hy]. discriminate.
  - assert (Hf : processtypes_on c && negb (skip_processtypes f) = true) by (rewrite Hon, Hs; reflexivity).
    rewrite (effective_parser_on _ _ _ _ Hf). unfold processtypes_wrap.
    rewrite (base_parser_known _ _ _ K P), E, Ew. cbn [snd]. pose proof (Ct _ _ Ew) as Hne.
    intros Hy. apply app_eq_nil in Hy. destruct Hy as [_ Hy]. destruct w; [contradiction|discriminate].
  - assert (Hf : processtypes_on c && negb (skip_processtypes f) = true) by (rewrite Hon, Hs; reflexivity).
    rewrite (effective_parser_on _ _ _ _ Hf). unfold processtypes_wrap.
    rewrite (base_parser_known _ _ _ K P), E, Ew. cbn [snd].
    intros Hy. apply app_eq_nil in Hy. destruct Hy as [_ Hy]. discriminate.
Qed.

(* a parser exception (not ParseError) is always reported, contract or not *)
Lemma exception_errs_nonempty O c f t errs :
  effective_parser O c f t = PRexc errs -> snd (parse_outcome O c f t) <> [].
Proof.
  intros E. unfold parse_outcome. rewrite E. cbn [snd]. intros Hx. apply app_eq_nil in Hx. destruct Hx; discriminate.
Qed.

(* ------------------------------------------------------------------ ensure_parsed_docstring *)
Lemma get_docstring_own c o a t : docstring c o = Some (a :: t) -> get_docstring c o = (Some (a :: t), Some o).
Proof. intros H. unfold get_docstring. cbn [get_docstring_from]. rewrite H. reflexivity. Qed.

Lemma get_docstring_own_empty c o : docstring c o = Some [] -> get_docstring c o = (None, Some o).
Proof. intros H. unfold get_docstring. cbn [get_docstring_from]. rewrite H. reflexivity. Qed.

Lemma get_docstring_own_source c o d : docstring c o = Some d -> snd (get_docstring c o) = Some o.
Proof. intros H. unfold get_docstring. cbn [get_docstring_from]. rewrite H. destruct d; reflexivity. Qed.

Lemma get_docstring_none c o : docstring c o = None -> inherits c o = [] -> get_docstring c o = (None, None).
Proof. intros H Hi. unfold get_docstring. cbn [get_docstring_from]. rewrite H, Hi. reflexivity. Qed.

Lemma get_docstring_inherited c o : docstring c o = None -> get_docstring c o = get_docstring_from c (inherits c o).
Proof. intros H. unfold get_docstring. cbn [get_docstring_from]. rewrite H. reflexivity. Qed.

Definition ensure_spec (O : oracles) (c : config) (st : state) (o : oid) : option oid * state :=
  match get_docstring c o, pdoc st o with
  | (_, None), None => (None, st)
  | (_, None), Some _ => (parent c o, st)
  | (None, Some _), None => (None, st)
  | (_, Some s), Some _ => (Some s, st)
  | (Some d, Some s), None =>
    let r := parse_docstring O c st o d s None SEC_DOCSTRING in
    (Some s, set_pdoc (snd r) o (Some (fst r)))
  end.

Lemma ensure_eq O c st o : ensure_parsed_docstring O c st o = ensure_spec O c st o.
Proof.
  unfold ensure_parsed_docstring, ensure_spec, ensure_from.
  destruct (get_docstring c o) as [[d|] [s|]]; destruct (pdoc st o) as [pd|] eqn:Hp; cbn [fst snd];
    try rewrite Hp; try reflexivity.
  destruct (parse_docstring O c st o d s None SEC_DOCSTRING) as [pd st'] eqn:E. cbn [fst snd].
  cbn [set_pdoc pdoc]. rewrite upd_same. reflexivity.
Qed.

(* the state after ensure, when a parse happens *)
Definition parsed_state (O : oracles) (c : config) (st : state) (o : oid) (t : text) : state :=
  set_pdoc (report_errors st o (snd (parse_outcome O c (applicable_format c o) t)) SEC_DOCSTRING) o
           (Some (fst (parse_outcome O c (applicable_format c o) t))).

Lemma ensure_fresh O c st o a t :
  docstring c o = Some (a :: t) -> pdoc st o = None ->
  ensure_parsed_docstring O c st o = (Some o, parsed_state O c st o (a :: t)).
Proof.
  intros Hd Hp. rewrite ensure_eq. unfold ensure_spec.
  rewrite (get_docstring_own _ _ _ _ Hd), Hp, parse_docstring_eq. reflexivity.
Qed.

Definition cached_source (c : config) (o : oid) : option oid :=
  match snd (get_docstring c o) with None => parent c o | Some s => Some s end.

Lemma ensure_cached O c st o pd :
  pdoc st o = Some pd -> ensure_parsed_docstring O c st o = (cached_source c o, st).
Proof.
  intros Hp. rewrite ensure_eq. unfold ensure_spec, cached_source. rewrite Hp.
  destruct (get_docstring c o) as [[d|] [s|]]; reflexivity.
Qed.

Lemma cached_source_own c o d : docstring c o = Some d -> cached_source c o = Some o.
Proof. intros H. unfold cached_source. rewrite (get_docstring_own_source _ _ _ H). reflexivity. Qed.

Lemma cached_source_split c o : docstring c o = None -> inherits c o = [] -> cached_source c o = parent c o.
Proof. intros H Hi. unfold cached_source. rewrite (get_docstring_none _ _ H Hi). reflexivity. Qed.

Lemma parsed_state_pdoc O c st o t :
  pdoc (parsed_state O c st o t) o = Some (fst (parse_outcome O c (applicable_format c o) t)).
Proof. unfold parsed_state. cbn [set_pdoc pdoc]. apply upd_same. Qed.

Lemma parsed_state_touches O c st o t : touches_only o st (parsed_state O c st o t).
Proof.
  unfold parsed_state. eapply touches_only_trans; [apply report_errors_touches|apply set_pdoc_touches].
Qed.

Lemma parsed_state_step2 O c s1 s2 o t :
  same_view o s1 s2 -> step2 o s1 s2 (parsed_state O c s1 o t) (parsed_state O c s2 o t).
Proof.
  intros H. unfold parsed_state.
  eapply set_pdoc_step2; [apply report_errors_step2; exact H|reflexivity|reflexivity].
Qed.

Lemma ensure_touches O c st o :
  renders_own_docstring c st o ->
  touches_only o st (snd (ensure_parsed_docstring O c st o)) /\
  (fst (ensure_parsed_docstring O c st o) = None \/ fst (ensure_parsed_docstring O c st o) = Some o).
Proof.
  intros Hown. rewrite ensure_eq. unfold ensure_spec.
  destruct (docstring c o) as [[|a t]|] eqn:Hd.
  - rewrite (get_docstring_own_empty _ _ Hd). destruct (pdoc st o); cbn [fst snd]; (split; [apply touches_only_refl|auto]).
  - rewrite (get_docstring_own _ _ _ _ Hd). destruct (pdoc st o) as [pd|] eqn:Hp; cbn [fst snd].
    + split; [apply touches_only_refl|auto].
    + rewrite parse_docstring_eq. cbn [fst snd]. split; [|right; reflexivity].
      change (touches_only o st (parsed_state O c st o (a :: t))). apply parsed_state_touches.
  - destruct Hown as [H|(Hp & Hi)]; [congruence|]. rewrite (get_docstring_none _ _ Hd Hi), Hp. cbn [fst snd].
    split; [apply touches_only_refl|auto].
Qed.

Lemma ensure_step2 O c s1 s2 o :
  renders_own_docstring c s1 o -> same_view o s1 s2 ->
  fst (ensure_parsed_docstring O c s1 o) = fst (ensure_parsed_docstring O c s2 o) /\
  step2 o s1 s2 (snd (ensure_parsed_docstring O c s1 o)) (snd (ensure_parsed_docstring O c s2 o)).
Proof.
  intros Hown Hv. pose proof Hv as (Hp & _ & _). rewrite !ensure_eq. unfold ensure_spec. rewrite <- Hp.
  destruct (docstring c o) as [[|a t]|] eqn:Hd.
  - rewrite (get_docstring_own_empty _ _ Hd). destruct (pdoc s1 o); cbn [fst snd];
      (split; [reflexivity|apply step2_refl; exact Hv]).
  - rewrite (get_docstring_own _ _ _ _ Hd). destruct (pdoc s1 o) as [pd|] eqn:Hp1; cbn [fst snd].
    + split; [reflexivity|apply step2_refl; exact Hv].
    + rewrite !parse_docstring_eq. cbn [fst snd]. split; [reflexivity|].
      apply (parsed_state_step2 O c s1 s2 o (a :: t) Hv).
  - destruct Hown as [H|(Hp1 & Hi)]; [congruence|]. rewrite (get_docstring_none _ _ Hd Hi), Hp1. cbn [fst snd].
    split; [reflexivity|apply step2_refl; exact Hv].
Qed.

Lemma ensure_keeps_own O c st o :
  renders_own_docstring c st o -> renders_own_docstring c (snd (ensure_parsed_docstring O c st o)) o.
Proof.
  intros [H|(H & Hi)]; [left; exact H|]. rewrite ensure_eq. unfold ensure_spec, renders_own_docstring. rewrite H.
  destruct (docstring c o) as [[|a t]|] eqn:Hd.
  - left; congruence.
  - left; congruence.
  - rewrite (get_docstring_none _ _ Hd Hi). cbn [snd]. right. split; assumption.
Qed.

(* ------------------------------------------------------------------ safe_to_stan *)
Lemma safe_to_stan_ok O c st pd ctx fb rep sec s :
  to_stan_p O pd = Some s -> safe_to_stan O c st pd ctx fb rep sec = (s, st).
Proof. intros H. unfold safe_to_stan. rewrite H. reflexivity. Qed.

Lemma safe_to_stan_fail O c st pd ctx fb rep sec :
  to_stan_p O pd = None ->
  safe_to_stan O c st pd ctx fb rep sec =
  (fst (run_fallback c fb ctx st),
   if rep then report_errors (snd (run_fallback c fb ctx st)) ctx [EToStanExc] sec else snd (run_fallback c fb ctx st)).
Proof.
  intros H. unfold safe_to_stan. rewrite H. destruct (run_fallback c fb ctx st). reflexivity.
Qed.

Lemma run_fallback_touches c fb ctx st : touches_only ctx st (snd (run_fallback c fb ctx st)).
Proof.
  destruct fb; cbn [run_fallback snd]; [apply touches_only_refl|apply set_psum_touches|apply touches_only_refl].
Qed.

Lemma safe_to_stan_touches O c st pd ctx fb rep sec :
  touches_only ctx st (snd (safe_to_stan O c st pd ctx fb rep sec)).
Proof.
  destruct (to_stan_p O pd) as [s|] eqn:E.
  - rewrite (safe_to_stan_ok _ _ _ _ _ _ _ _ _ E). apply touches_only_refl.
  - rewrite (safe_to_stan_fail _ _ _ _ _ _ _ _ E). cbn [snd].
    destruct rep; [eapply touches_only_trans; [apply run_fallback_touches|apply report_errors_touches]
                  |apply run_fallback_touches].
Qed.

Lemma run_fallback_step2 c fb o s1 s2 :
  same_view o s1 s2 ->
  fst (run_fallback c fb o s1) = fst (run_fallback c fb o s2) /\
  step2 o s1 s2 (snd (run_fallback c fb o s1)) (snd (run_fallback c fb o s2)).
Proof.
  intros H. destruct fb; cbn [run_fallback fst snd]; (split; [reflexivity|]).
  - apply step2_refl. exact H.
  - eapply set_psum_step2; [apply step2_refl; exact H|reflexivity|reflexivity].
  - apply step2_refl. exact H.
Qed.

Lemma safe_to_stan_step2 O c s1 s2 pd o fb rep sec :
  same_view o s1 s2 ->
  fst (safe_to_stan O c s1 pd o fb rep sec) = fst (safe_to_stan O c s2 pd o fb rep sec) /\
  step2 o s1 s2 (snd (safe_to_stan O c s1 pd o fb rep sec)) (snd (safe_to_stan O c s2 pd o fb rep sec)).
Proof.
  intros H. destruct (to_stan_p O pd) as [s|] eqn:E.
  - rewrite !(safe_to_stan_ok _ _ _ _ _ _ _ _ _ E). split; [reflexivity|apply step2_refl; exact H].
  - rewrite !(safe_to_stan_fail _ _ _ _ _ _ _ _ E). cbn [fst snd].
    destruct (run_fallback_step2 c fb o s1 s2 H) as (Hf & Hs). split; [exact Hf|].
    destruct rep; [|exact Hs].
    eapply step2_trans; [exact Hs|]. apply report_errors_step2. apply Hs.
Qed.

(* ------------------------------------------------------------------ format_fields *)
Lemma format_fields_touches O c st src fs : touches_only src st (snd (format_fields O c st src fs)).
Proof.
  revert st. induction fs as [|f fs IH]; intros st; cbn [format_fields].
  - apply touches_only_refl.
  - pose proof (safe_to_stan_touches O c st (PMark f) src FB_broken true SEC_DOCSTRING) as H1.
    destruct (safe_to_stan O c st (PMark f) src FB_broken true SEC_DOCSTRING) as [s st1]. cbn [snd] in H1.
    pose proof (IH st1) as H2. destruct (format_fields O c st1 src fs) as [ss st2]. cbn [snd] in *.
    eapply touches_only_trans; eassumption.
Qed.

Lemma format_fields_step2 O c s1 s2 o fs :
  same_view o s1 s2 ->
  fst (format_fields O c s1 o fs) = fst (format_fields O c s2 o fs) /\
  step2 o s1 s2 (snd (format_fields O c s1 o fs)) (snd (format_fields O c s2 o fs)).
Proof.
  revert s1 s2. induction fs as [|f fs IH]; intros s1 s2 H; cbn [format_fields].
  - split; [reflexivity|apply step2_refl; exact H].
  - destruct (safe_to_stan_step2 O c s1 s2 (PMark f) o FB_broken true SEC_DOCSTRING H) as (Hf & Hs).
    destruct (safe_to_stan O c s1 (PMark f) o FB_broken true SEC_DOCSTRING) as [x1 t1].
    destruct (safe_to_stan O c s2 (PMark f) o FB_broken true SEC_DOCSTRING) as [x2 t2].
    cbn [fst snd] in *. subst x2.
    destruct (IH t1 t2 (proj1 Hs)) as (Hf2 & Hs2).
    destruct (format_fields O c t1 o fs) as [y1 u1]. destruct (format_fields O c t2 o fs) as [y2 u2].
    cbn [fst snd] in *. subst y2. split; [reflexivity|]. eapply step2_trans; eassumption.
Qed.

(* once the object is in parse_errors[docstring], rendering fields reports nothing more *)
Lemma format_fields_quiet O c st src fs :
  mem_pe SEC_DOCSTRING src (parse_errors st) = true ->
  reports (snd (format_fields O c st src fs)) = reports st /\
  parse_errors (snd (format_fields O c st src fs)) = parse_errors st /\
  pdoc (snd (format_fields O c st src fs)) = pdoc st /\ psum (snd (format_fields O c st src fs)) = psum st.
Proof.
  revert st. induction fs as [|f fs IH]; intros st Hm; cbn [format_fields]; [repeat split|].
  destruct (to_stan_p O (PMark f)) as [s|] eqn:E.
  - rewrite (safe_to_stan_ok _ _ _ _ _ _ _ _ _ E).
    specialize (IH st Hm). destruct (format_fields O c st src fs). exact IH.
  - rewrite (safe_to_stan_fail _ _ _ _ _ _ _ _ E). cbn [run_fallback fst snd].
    rewrite (report_errors_known _ _ _ _ Hm).
    specialize (IH st Hm). destruct (format_fields O c st src fs). exact IH.
Qed.

(* ------------------------------------------------------------------ frames of safe_to_stan / format_fields *)
Lemma run_fallback_pdoc c fb ctx st : pdoc (snd (run_fallback c fb ctx st)) = pdoc st.
Proof. destruct fb; reflexivity. Qed.

Lemma run_fallback_pe c fb ctx st : parse_errors (snd (run_fallback c fb ctx st)) = parse_errors st.
Proof. destruct fb; reflexivity. Qed.

Lemma run_fallback_reports c fb ctx st : reports (snd (run_fallback c fb ctx st)) = reports st.
Proof. destruct fb; reflexivity. Qed.

Lemma safe_to_stan_pdoc O c st pd ctx fb rep sec : pdoc (snd (safe_to_stan O c st pd ctx fb rep sec)) = pdoc st.
Proof.
  destruct (to_stan_p O pd) as [s|] eqn:E.
  - rewrite (safe_to_stan_ok _ _ _ _ _ _ _ _ _ E). reflexivity.
  - rewrite (safe_to_stan_fail _ _ _ _ _ _ _ _ E). cbn [snd].
    destruct rep; [rewrite report_errors_pdoc|]; apply run_fallback_pdoc.
Qed.

Lemma safe_to_stan_mem_monotone O c st pd ctx fb rep sec s x :
  mem_pe s x (parse_errors st) = true ->
  mem_pe s x (parse_errors (snd (safe_to_stan O c st pd ctx fb rep sec))) = true.
Proof.
  intros H. destruct (to_stan_p O pd) as [r|] eqn:E.
  - rewrite (safe_to_stan_ok _ _ _ _ _ _ _ _ _ E). exact H.
  - rewrite (safe_to_stan_fail _ _ _ _ _ _ _ _ E). cbn [snd].
    destruct rep; [apply report_errors_mem_monotone|]; rewrite run_fallback_pe; exact H.
Qed.

Lemma format_fields_pdoc O c st src fs : pdoc (snd (format_fields O c st src fs)) = pdoc st.
Proof.
  revert st. induction fs as [|f fs IH]; intros st; cbn [format_fields]; [reflexivity|].
  pose proof (safe_to_stan_pdoc O c st (PMark f) src FB_broken true SEC_DOCSTRING) as H1.
  destruct (safe_to_stan O c st (PMark f) src FB_broken true SEC_DOCSTRING) as [s st1]. cbn [snd] in H1.
  pose proof (IH st1) as H2. destruct (format_fields O c st1 src fs) as [ss st2]. cbn [snd] in *. congruence.
Qed.

Lemma format_fields_mem_monotone O c st src fs s x :
  mem_pe s x (parse_errors st) = true -> mem_pe s x (parse_errors (snd (format_fields O c st src fs))) = true.
Proof.
  revert st. induction fs as [|f fs IH]; intros st H; cbn [format_fields]; [exact H|].
  pose proof (safe_to_stan_mem_monotone O c st (PMark f) src FB_broken true SEC_DOCSTRING s x H) as H1.
  destruct (safe_to_stan O c st (PMark f) src FB_broken true SEC_DOCSTRING) as [r st1]. cbn [snd] in H1.
  pose proof (IH st1 H1) as H2. destruct (format_fields O c st1 src fs) as [ss st2]. exact H2.
Qed.

Lemma format_fields_reports_prefix O c st src fs :
  exists d, reports (snd (format_fields O c st src fs)) = reports st ++ d.
Proof. destruct (format_fields_touches O c st src fs) as (_ & d & H & _). exists d. exact H. Qed.

(* ------------------------------------------------------------------ format_docstring: the four situations *)
Definition render_with (O : oracles) (c : config) (st : state) (pd : parsed) (src : oid) : docres * state :=
  let r := safe_to_stan O c st pd src FB_docstring true SEC_DOCSTRING in
  let rf := format_fields O c (snd r) src (fields_p O pd) in
  ({| d_body := BStan (fst r); d_fields := fst rf |}, snd rf).

Lemma format_docstring_fresh O c st o a t :
  docstring c o = Some (a :: t) -> pdoc st o = None ->
  format_docstring O c st o =
  render_with O c (parsed_state O c st o (a :: t)) (fst (parse_outcome O c (applicable_format c o) (a :: t))) o.
Proof.
  intros Hd Hp. unfold format_docstring, render_with. rewrite (ensure_fresh _ _ _ _ _ _ Hd Hp), parsed_state_pdoc.
  destruct (safe_to_stan O c _ _ o FB_docstring true SEC_DOCSTRING) as [s st2]. cbn [fst snd].
  destruct (format_fields O c st2 o _) as [fs st3]. reflexivity.
Qed.

Lemma format_docstring_cached O c st o pd :
  pdoc st o = Some pd ->
  format_docstring O c st o =
  match cached_source c o with
  | Some src => render_with O c st pd src
  | None => ({| d_body := BUndocumented; d_fields := [] |}, st)
  end.
Proof.
  intros Hp. unfold format_docstring, render_with. rewrite (ensure_cached _ _ _ _ _ Hp), Hp.
  destruct (cached_source c o) as [src|]; [|reflexivity].
  destruct (safe_to_stan O c st pd src FB_docstring true SEC_DOCSTRING) as [s st2]. cbn [fst snd].
  destruct (format_fields O c st2 src _) as [fs st3]. reflexivity.
Qed.

Lemma format_docstring_undocumented O c st o :
  pdoc st o = None -> ((docstring c o = None /\ inherits c o = []) \/ docstring c o = Some []) ->
  format_docstring O c st o = ({| d_body := BUndocumented; d_fields := [] |}, st).
Proof.
  intros Hp Hd. unfold format_docstring. rewrite ensure_eq. unfold ensure_spec. rewrite Hp.
  destruct Hd as [(Hd & Hi) | Hd].
  - rewrite (get_docstring_none _ _ Hd Hi). reflexivity.
  - rewrite (get_docstring_own_empty _ _ Hd). reflexivity.
Qed.

(* render_with when the parsed docstring is plain text *)
Lemma render_with_plain O c st t src :
  render_with O c st (PPlain t) src = ({| d_body := BStan (SPre t); d_fields := [] |}, st).
Proof. reflexivity. Qed.

(* ------------------------------------------------------------------ C08_fallback_is_whole_text *)
Theorem fallback_is_whole_text O c st o a t :
  docstring c o = Some (a :: t) -> pdoc st o = None ->
  gives_up O c (applicable_format c o) (a :: t) ->
  format_docstring O c st o =
  ({| d_body := BStan (SPre (a :: t)); d_fields := [] |}, parsed_state O c st o (a :: t)) /\
  pdoc (parsed_state O c st o (a :: t)) o = Some (PPlain (a :: t)).
Proof.
  intros Hd Hp Hg. rewrite (format_docstring_fresh _ _ _ _ _ _ Hd Hp).
  rewrite parsed_state_pdoc, (gives_up_outcome _ _ _ _ Hg), render_with_plain. split; reflexivity.
Qed.

(* once parsed as plain text, every later call shows the same text and changes nothing *)
Lemma format_docstring_plain_cached O c st o t d :
  docstring c o = Some d -> pdoc st o = Some (PPlain t) ->
  format_docstring O c st o = ({| d_body := BStan (SPre t); d_fields := [] |}, st).
Proof. intros Hd Hp. rewrite (format_docstring_cached _ _ _ _ _ Hp), (cached_source_own _ _ _ Hd). apply render_with_plain. Qed.

(* ------------------------------------------------------------------ C08_reported_against_object *)
Lemma parsed_state_reported O c st o t :
  snd (parse_outcome O c (applicable_format c o) t) <> [] ->
  let st' := parsed_state O c st o t in
  in_parse_errors st' SEC_DOCSTRING o /\
  (mem_pe SEC_DOCSTRING o (parse_errors st) = false ->
   exists e d, reports st' = reports st ++ (o, SEC_DOCSTRING, e) :: d /\ Forall (names o) d /\
               (e :: map (fun r => snd r) d) = snd (parse_outcome O c (applicable_format c o) t)) /\
  (mem_pe SEC_DOCSTRING o (parse_errors st) = true -> reports st' = reports st).
Proof.
  intros Hne. cbn zeta. unfold parsed_state, in_parse_errors. cbn [set_pdoc parse_errors reports].
  split; [apply report_errors_mem_after; exact Hne|]. split.
  - intros Hm. destruct (snd (parse_outcome O c (applicable_format c o) t)) as [|e errs]; [contradiction|].
    rewrite (report_errors_new _ _ _ _ _ Hm). cbn [reports map].
    exists e, (map (fun x => (o, SEC_DOCSTRING, x)) errs). split; [reflexivity|]. split.
    + apply Forall_forall. intros r Hr. apply in_map_iff in Hr. destruct Hr as (x & <- & _). reflexivity.
    + rewrite map_map. cbn [snd]. rewrite map_id. reflexivity.
  - intros Hm. rewrite (report_errors_known _ _ _ _ Hm). reflexivity.
Qed.

Theorem reported_against_object O c st o a t :
  raised_error_is_recorded O ->
  docstring c o = Some (a :: t) -> pdoc st o = None ->
  gives_up O c (applicable_format c o) (a :: t) ->
  let r := format_docstring O c st o in
  in_parse_errors (snd r) SEC_DOCSTRING o /\
  (mem_pe SEC_DOCSTRING o (parse_errors st) = false ->
   exists e d, reports (snd r) = reports st ++ (o, SEC_DOCSTRING, e) :: d /\ Forall (names o) d) /\
  (mem_pe SEC_DOCSTRING o (parse_errors st) = true -> reports (snd r) = reports st) /\
  touches_only o st (snd r) /\
  format_docstring O c (snd r) o = (fst r, snd r).
Proof.
  intros Hc Hd Hp Hg. cbn zeta.
  destruct (fallback_is_whole_text O c st o a t Hd Hp Hg) as (E & Hpd). rewrite E. cbn [fst snd].
  destruct (parsed_state_reported O c st o (a :: t) (gives_up_errs_nonempty _ _ _ _ Hc Hg)) as (H1 & H2 & H3).
  split; [exact H1|]. split.
  - intros Hm. destruct (H2 Hm) as (e & d & R & Hn & _). exists e, d. split; assumption.
  - split; [exact H3|]. split; [apply parsed_state_touches|].
    apply (format_docstring_plain_cached _ _ _ _ _ _ Hd Hpd).
Qed.

(* without the contract: an exception other than ParseError is always reported *)
Theorem exception_always_reported O c st o a t errs :
  docstring c o = Some (a :: t) -> pdoc st o = None ->
  effective_parser O c (applicable_format c o) (a :: t) = PRexc errs ->
  in_parse_errors (snd (format_docstring O c st o)) SEC_DOCSTRING o /\
  (mem_pe SEC_DOCSTRING o (parse_errors st) = false ->
   In (o, SEC_DOCSTRING, EParseExc) (reports (snd (format_docstring O c st o)))).
Proof.
  intros Hd Hp E. rewrite (format_docstring_fresh _ _ _ _ _ _ Hd Hp).
  assert (Ho : parse_outcome O c (applicable_format c o) (a :: t) = (PPlain (a :: t), errs ++ [EParseExc])).
  { unfold parse_outcome. rewrite E. reflexivity. }
  rewrite Ho. cbn [fst]. rewrite render_with_plain. cbn [snd].
  unfold parsed_state, in_parse_errors. rewrite Ho. cbn [fst snd set_pdoc parse_errors reports].
  assert (Hne : errs ++ [EParseExc] <> []) by (intros Hx; apply app_eq_nil in Hx; destruct Hx; discriminate).
  split; [apply report_errors_mem_after; exact Hne|].
  intros Hm. destruct (errs ++ [EParseExc]) as [|e l] eqn:El; [contradiction|].
  rewrite (report_errors_new _ _ _ _ _ Hm). cbn [reports]. apply in_or_app. right.
  apply in_map_iff. exists EParseExc. split; [reflexivity|]. rewrite <- El. apply in_or_app. right. left. reflexivity.
Qed.

(* ------------------------------------------------------------------ C08_rst_recovered_errors_reported *)
Lemma render_with_pdoc O c st pd src : pdoc (snd (render_with O c st pd src)) = pdoc st.
Proof. unfold render_with. cbn [snd]. rewrite format_fields_pdoc, safe_to_stan_pdoc. reflexivity. Qed.

Lemma render_with_mem_monotone O c st pd src s x :
  mem_pe s x (parse_errors st) = true -> mem_pe s x (parse_errors (snd (render_with O c st pd src))) = true.
Proof.
  intros H. unfold render_with. cbn [snd]. apply format_fields_mem_monotone, safe_to_stan_mem_monotone. exact H.
Qed.

Lemma render_with_reports_prefix O c st pd src :
  exists d, reports (snd (render_with O c st pd src)) = reports st ++ d.
Proof.
  unfold render_with. cbn [snd].
  destruct (safe_to_stan_touches O c st pd src FB_docstring true SEC_DOCSTRING) as (_ & d1 & R1 & _).
  destruct (format_fields_reports_prefix O c (snd (safe_to_stan O c st pd src FB_docstring true SEC_DOCSTRING)) src (fields_p O pd))
    as (d2 & R2).
  exists (d1 ++ d2). rewrite R2, R1, app_assoc. reflexivity.
Qed.

Lemma render_with_body O c st p src :
  d_body (fst (render_with O c st (PMark p) src)) =
  BStan (match to_stan O p with
         | Some s => SMark s
         | None => match docstring c src with Some t => SPre t | None => SBroken end
         end).
Proof.
  unfold render_with. cbn [fst d_body]. unfold safe_to_stan. cbn [to_stan_p].
  destruct (to_stan O p) as [s|]; reflexivity.
Qed.

Theorem recovered_errors_reported O c st o a t p errs :
  docstring c o = Some (a :: t) -> pdoc st o = None ->
  effective_parser O c (applicable_format c o) (a :: t) = PRok (PMark p) errs -> errs <> [] ->
  let r := format_docstring O c st o in
  pdoc (snd r) o = Some (PMark p) /\
  in_parse_errors (snd r) SEC_DOCSTRING o /\
  (mem_pe SEC_DOCSTRING o (parse_errors st) = false ->
   exists d, reports (snd r) = reports st ++ map (fun e => (o, SEC_DOCSTRING, e)) errs ++ d) /\
  d_body (fst r) = BStan (match to_stan O p with Some s => SMark s | None => SPre (a :: t) end).
Proof.
  intros Hd Hp E Hne. cbn zeta. rewrite (format_docstring_fresh _ _ _ _ _ _ Hd Hp).
  assert (Ho : parse_outcome O c (applicable_format c o) (a :: t) = (PMark p, errs)).
  { unfold parse_outcome. rewrite E. reflexivity. }
  rewrite Ho. cbn [fst].
  assert (Hne' : snd (parse_outcome O c (applicable_format c o) (a :: t)) <> []) by (rewrite Ho; exact Hne).
  destruct (parsed_state_reported O c st o (a :: t) Hne') as (H1 & H2 & _).
  split; [rewrite render_with_pdoc, parsed_state_pdoc, Ho; reflexivity|].
  split; [apply render_with_mem_monotone; exact H1|]. split.
  - intros Hm. destruct (render_with_reports_prefix O c (parsed_state O c st o (a :: t)) (PMark p) o) as (d & R).
    exists d. rewrite R. unfold parsed_state. rewrite Ho. cbn [fst snd set_pdoc reports].
    destruct errs as [|e errs]; [contradiction|]. rewrite (report_errors_new _ _ _ _ _ Hm). cbn [reports].
    rewrite app_assoc. reflexivity.
  - rewrite render_with_body, Hd. reflexivity.
Qed.

(* ------------------------------------------------------------------ C08_to_stan_failure_fallback *)
Lemma render_with_to_stan_fails O c st p src :
  to_stan O p = None ->
  let r := render_with O c st (PMark p) src in
  d_body (fst r) = BStan (match docstring c src with Some t => SPre t | None => SBroken end) /\
  in_parse_errors (snd r) SEC_DOCSTRING src /\
  (mem_pe SEC_DOCSTRING src (parse_errors st) = false ->
   exists d, reports (snd r) = reports st ++ (src, SEC_DOCSTRING, EToStanExc) :: d /\ Forall (names src) d) /\
  (mem_pe SEC_DOCSTRING src (parse_errors st) = true -> reports (snd r) = reports st) /\
  pdoc (snd r) = pdoc st.
Proof.
  intros Hts. cbn zeta. split; [rewrite render_with_body, Hts; reflexivity|].
  assert (Hs : to_stan_p O (PMark p) = None) by (cbn [to_stan_p]; rewrite Hts; reflexivity).
  unfold render_with. rewrite (safe_to_stan_fail _ _ _ _ _ _ _ _ Hs). cbn [run_fallback fst snd].
  set (st1 := report_errors st src [EToStanExc] SEC_DOCSTRING).
  assert (Hin : mem_pe SEC_DOCSTRING src (parse_errors st1) = true)
    by (apply report_errors_mem_after; discriminate).
  destruct (format_fields_quiet O c st1 src (fields_p O (PMark p)) Hin) as (Q1 & Q2 & Q3 & _).
  unfold in_parse_errors. rewrite Q1, Q2, Q3. split; [exact Hin|]. split.
  - intros Hm. unfold st1. rewrite (report_errors_new _ _ _ _ _ Hm). cbn [reports map].
    exists []. split; [reflexivity|constructor].
  - split; [intros Hm; unfold st1; rewrite (report_errors_known _ _ _ _ Hm); reflexivity|].
    unfold st1. apply report_errors_pdoc.
Qed.

Theorem to_stan_failure_fallback O c st o p t :
  pdoc st o = Some (PMark p) -> to_stan O p = None -> docstring c o = Some t ->
  let r := format_docstring O c st o in
  d_body (fst r) = BStan (SPre t) /\
  in_parse_errors (snd r) SEC_DOCSTRING o /\
  (mem_pe SEC_DOCSTRING o (parse_errors st) = false ->
   exists d, reports (snd r) = reports st ++ (o, SEC_DOCSTRING, EToStanExc) :: d /\ Forall (names o) d) /\
  d_body (fst (format_docstring O c (snd r) o)) = BStan (SPre t) /\
  reports (snd (format_docstring O c (snd r) o)) = reports (snd r).
Proof.
  intros Hp Hts Hd. cbn zeta. rewrite (format_docstring_cached _ _ _ _ _ Hp), (cached_source_own _ _ _ Hd).
  destruct (render_with_to_stan_fails O c st p o Hts) as (B & I & R & _ & Pd). rewrite Hd in B.
  split; [exact B|]. split; [exact I|]. split; [exact R|].
  assert (Hp' : pdoc (snd (render_with O c st (PMark p) o)) o = Some (PMark p)) by (rewrite Pd; exact Hp).
  rewrite (format_docstring_cached _ _ _ _ _ Hp'), (cached_source_own _ _ _ Hd).
  destruct (render_with_to_stan_fails O c (snd (render_with O c st (PMark p) o)) p o Hts) as (B2 & _ & _ & R2 & _).
  rewrite Hd in B2. split; [exact B2|]. apply R2. exact I.
Qed.

(* a split field (documented by its parent's @ivar): the fallback is the PARENT's docstring, reported against the parent *)
Theorem to_stan_failure_split_field O c st o q p :
  docstring c o = None -> inherits c o = [] -> pdoc st o = Some (PMark p) -> parent c o = Some q -> to_stan O p = None ->
  let r := format_docstring O c st o in
  d_body (fst r) = BStan (match docstring c q with Some t => SPre t | None => SBroken end) /\
  in_parse_errors (snd r) SEC_DOCSTRING q.
Proof.
  intros Hd Hi Hp Hq Hts. cbn zeta. rewrite (format_docstring_cached _ _ _ _ _ Hp), (cached_source_split _ _ Hd Hi), Hq.
  destruct (render_with_to_stan_fails O c st p q Hts) as (B & I & _). split; assumption.
Qed.

(* ------------------------------------------------------------------ format_summary *)
Lemma get_parsed_summary_cached_doc O c st o pd d :
  pdoc st o = Some pd -> docstring c o = Some d ->
  get_parsed_summary O c st o =
  match psum st o with
  | Some ps => (Some o, ps, st)
  | None => (Some o, get_summary O pd, set_psum st o (Some (get_summary O pd)))
  end.
Proof.
  intros Hp Hd. unfold get_parsed_summary. rewrite (ensure_cached _ _ _ _ _ Hp), (cached_source_own _ _ _ Hd), Hp. reflexivity.
Qed.

Theorem summary_fallback O c st o pd d s :
  pdoc st o = Some pd -> docstring c o = Some d -> psum st o = None ->
  get_summary O pd = PMark s -> to_stan O s = None ->
  let r := format_summary O c st o in
  fst r = SBroken /\
  psum (snd r) o = Some (PStanOnly SBroken) /\
  reports (snd r) = reports st /\ parse_errors (snd r) = parse_errors st /\ pdoc (snd r) = pdoc st /\
  (forall x, x <> o -> psum (snd r) x = psum st x) /\
  format_summary O c (snd r) o = (SBroken, snd r).
Proof.
  intros Hp Hd Hs Hg Hts. cbn zeta. unfold format_summary.
  rewrite (get_parsed_summary_cached_doc _ _ _ _ _ _ Hp Hd), Hs, Hg.
  assert (Hf : to_stan_p O (PMark s) = None) by (cbn [to_stan_p]; rewrite Hts; reflexivity).
  rewrite (safe_to_stan_fail _ _ _ _ _ _ _ _ Hf). cbn [run_fallback fst snd].
  split; [reflexivity|]. split; [cbn [set_psum psum]; apply upd_same|].
  split; [reflexivity|]. split; [reflexivity|]. split; [reflexivity|]. split.
  - intros x Hx. cbn [set_psum psum]. rewrite !upd_other by exact Hx. reflexivity.
  - set (st' := set_psum (set_psum st o (Some (PMark s))) o (Some (PStanOnly SBroken))).
    assert (Hp' : pdoc st' o = Some pd) by exact Hp.
    rewrite (get_parsed_summary_cached_doc _ _ _ _ _ _ Hp' Hd).
    assert (Hs' : psum st' o = Some (PStanOnly SBroken)) by (unfold st'; cbn [set_psum psum]; apply upd_same).
    rewrite Hs'. reflexivity.
Qed.

(* get_summary itself failing (to_node / SummaryExtractor raise): "Broken summary", nothing reported *)
Theorem summary_extraction_failure O c st o p d :
  pdoc st o = Some (PMark p) -> docstring c o = Some d -> psum st o = None ->
  summary_node O p = SumRaise ->
  format_summary O c st o = (SBrokenSummary, set_psum st o (Some (PStanOnly SBrokenSummary))).
Proof.
  intros Hp Hd Hs Hn. unfold format_summary.
  rewrite (get_parsed_summary_cached_doc _ _ _ _ _ _ Hp Hd), Hs. unfold get_summary. rewrite Hn. reflexivity.
Qed.

(* ------------------------------------------------------------------ non-interference *)
Lemma source_is_self O c st o :
  renders_own_docstring c st o ->
  match fst (ensure_parsed_docstring O c st o) with Some s => s | None => o end = o.
Proof. intros H. destruct (ensure_touches O c st o H) as (_ & [-> | ->]); reflexivity. Qed.

Lemma format_docstring_touches O c st o :
  renders_own_docstring c st o -> touches_only o st (snd (format_docstring O c st o)).
Proof.
  intros Hown. unfold format_docstring.
  destruct (ensure_touches O c st o Hown) as (Ht & Hsrc).
  destruct (ensure_parsed_docstring O c st o) as [src st1]. cbn [fst snd] in *.
  destruct src as [src|]; [|exact Ht]. destruct Hsrc as [Hx|Hx]; [discriminate|]. injection Hx as ->.
  destruct (pdoc st1 o) as [pd|]; [|exact Ht].
  pose proof (safe_to_stan_touches O c st1 pd o FB_docstring true SEC_DOCSTRING) as H1.
  destruct (safe_to_stan O c st1 pd o FB_docstring true SEC_DOCSTRING) as [s st2]. cbn [snd] in H1.
  pose proof (format_fields_touches O c st2 o (fields_p O pd)) as H2.
  destruct (format_fields O c st2 o (fields_p O pd)) as [fs st3]. cbn [snd] in *.
  eapply touches_only_trans; [exact Ht|]. eapply touches_only_trans; eassumption.
Qed.

Lemma format_docstring_step2 O c s1 s2 o :
  renders_own_docstring c s1 o -> same_view o s1 s2 ->
  fst (format_docstring O c s1 o) = fst (format_docstring O c s2 o) /\
  step2 o s1 s2 (snd (format_docstring O c s1 o)) (snd (format_docstring O c s2 o)).
Proof.
  intros Hown Hv. unfold format_docstring.
  destruct (ensure_step2 O c s1 s2 o Hown Hv) as (Hf & Hs).
  destruct (ensure_touches O c s1 o Hown) as (_ & Hsrc).
  destruct (ensure_parsed_docstring O c s1 o) as [src1 t1]. destruct (ensure_parsed_docstring O c s2 o) as [src2 t2].
  cbn [fst snd] in *. subst src2. pose proof Hs as ((Hp & _ & _) & _). rewrite <- Hp.
  destruct src1 as [src|]; [|split; [reflexivity|exact Hs]].
  destruct Hsrc as [Hx|Hx]; [discriminate|]. injection Hx as ->.
  destruct (pdoc t1 o) as [pd|]; [|split; [reflexivity|exact Hs]].
  destruct (safe_to_stan_step2 O c t1 t2 pd o FB_docstring true SEC_DOCSTRING (proj1 Hs)) as (Hf1 & Hs1).
  destruct (safe_to_stan O c t1 pd o FB_docstring true SEC_DOCSTRING) as [x1 u1].
  destruct (safe_to_stan O c t2 pd o FB_docstring true SEC_DOCSTRING) as [x2 u2]. cbn [fst snd] in *. subst x2.
  destruct (format_fields_step2 O c u1 u2 o (fields_p O pd) (proj1 Hs1)) as (Hf2 & Hs2).
  destruct (format_fields O c u1 o (fields_p O pd)) as [y1 v1].
  destruct (format_fields O c u2 o (fields_p O pd)) as [y2 v2]. cbn [fst snd] in *. subst y2.
  split; [reflexivity|]. eapply step2_trans; [exact Hs|]. eapply step2_trans; eassumption.
Qed.

Lemma format_summary_touches O c st o :
  renders_own_docstring c st o -> touches_only o st (snd (format_summary O c st o)).
Proof.
  intros Hown. unfold format_summary, get_parsed_summary.
  destruct (ensure_touches O c st o Hown) as (Ht & _). pose proof (source_is_self O c st o Hown) as Hself.
  destruct (ensure_parsed_docstring O c st o) as [src st1]. cbn [fst snd] in *.
  destruct (psum st1 o) as [ps|].
  - rewrite Hself. eapply touches_only_trans; [exact Ht|apply safe_to_stan_touches].
  - rewrite Hself. eapply touches_only_trans; [exact Ht|].
    eapply touches_only_trans; [apply set_psum_touches|apply safe_to_stan_touches].
Qed.

Lemma format_summary_step2 O c s1 s2 o :
  renders_own_docstring c s1 o -> same_view o s1 s2 ->
  fst (format_summary O c s1 o) = fst (format_summary O c s2 o) /\
  step2 o s1 s2 (snd (format_summary O c s1 o)) (snd (format_summary O c s2 o)).
Proof.
  intros Hown Hv. unfold format_summary, get_parsed_summary.
  destruct (ensure_step2 O c s1 s2 o Hown Hv) as (Hf & Hs).
  pose proof (source_is_self O c s1 o Hown) as Hself.
  destruct (ensure_parsed_docstring O c s1 o) as [src1 t1]. destruct (ensure_parsed_docstring O c s2 o) as [src2 t2].
  cbn [fst snd] in *. subst src2. pose proof Hs as ((Hp & Hq & _) & _). rewrite <- Hq, <- Hp.
  destruct (psum t1 o) as [ps|].
  - rewrite Hself.
    destruct (safe_to_stan_step2 O c t1 t2 ps o FB_summary false SEC_DOCSTRING (proj1 Hs)) as (Hf1 & Hs1).
    split; [exact Hf1|]. eapply step2_trans; eassumption.
  - rewrite Hself.
    set (sp := match src1, pdoc t1 o with Some _, Some pd => get_summary O pd | _, _ => PStanOnly (SUndocSpan o) end).
    assert (Hs0 : step2 o s1 s2 (set_psum t1 o (Some sp)) (set_psum t2 o (Some sp)))
      by (eapply set_psum_step2; [exact Hs|reflexivity|reflexivity]).
    destruct (safe_to_stan_step2 O c _ _ sp o FB_summary false SEC_DOCSTRING (proj1 Hs0)) as (Hf1 & Hs1).
    split; [exact Hf1|]. eapply step2_trans; eassumption.
Qed.

Lemma format_toc_touches O c st o :
  renders_own_docstring c st o -> touches_only o st (snd (format_toc O c st o)).
Proof.
  intros Hown. unfold format_toc.
  destruct (ensure_touches O c st o Hown) as (Ht & _).
  destruct (ensure_parsed_docstring O c st o) as [src st1]. cbn [fst snd] in *.
  destruct (pdoc st1 o) as [pd|]; [|exact Ht]. destruct (toc_enabled c); [|exact Ht].
  destruct (get_toc O pd) as [[tp|]|]; try exact Ht.
  pose proof (safe_to_stan_touches O c st1 tp o FB_broken false SEC_DOCSTRING) as H1.
  destruct (safe_to_stan O c st1 tp o FB_broken false SEC_DOCSTRING) as [s st2]. cbn [snd] in *.
  eapply touches_only_trans; eassumption.
Qed.

Lemma format_toc_step2 O c s1 s2 o :
  renders_own_docstring c s1 o -> same_view o s1 s2 ->
  fst (format_toc O c s1 o) = fst (format_toc O c s2 o) /\
  step2 o s1 s2 (snd (format_toc O c s1 o)) (snd (format_toc O c s2 o)).
Proof.
  intros Hown Hv. unfold format_toc.
  destruct (ensure_step2 O c s1 s2 o Hown Hv) as (_ & Hs).
  destruct (ensure_parsed_docstring O c s1 o) as [src1 t1]. destruct (ensure_parsed_docstring O c s2 o) as [src2 t2].
  cbn [fst snd] in *. pose proof Hs as ((Hp & _ & _) & _). rewrite <- Hp.
  destruct (pdoc t1 o) as [pd|]; [|split; [reflexivity|exact Hs]].
  destruct (toc_enabled c); [|split; [reflexivity|exact Hs]].
  destruct (get_toc O pd) as [[tp|]|]; try (split; [reflexivity|exact Hs]).
  destruct (safe_to_stan_step2 O c t1 t2 tp o FB_broken false SEC_DOCSTRING (proj1 Hs)) as (Hf1 & Hs1).
  destruct (safe_to_stan O c t1 tp o FB_broken false SEC_DOCSTRING) as [x1 u1].
  destruct (safe_to_stan O c t2 tp o FB_broken false SEC_DOCSTRING) as [x2 u2]. cbn [fst snd] in *. subst x2.
  split; [reflexivity|]. eapply step2_trans; eassumption.
Qed.

Lemma run_opk_touches O c st k o :
  renders_own_docstring c st o -> touches_only o st (snd (run_opk O c st k o)).
Proof.
  intros H. destruct k; cbn [run_opk].
  - pose proof (format_docstring_touches O c st o H) as T. destruct (format_docstring O c st o). exact T.
  - pose proof (format_summary_touches O c st o H) as T. destruct (format_summary O c st o). exact T.
  - pose proof (format_toc_touches O c st o H) as T. destruct (format_toc O c st o). exact T.
Qed.

Lemma run_opk_step2 O c s1 s2 k o :
  renders_own_docstring c s1 o -> same_view o s1 s2 ->
  fst (run_opk O c s1 k o) = fst (run_opk O c s2 k o) /\
  step2 o s1 s2 (snd (run_opk O c s1 k o)) (snd (run_opk O c s2 k o)).
Proof.
  intros H V. destruct k; cbn [run_opk].
  - destruct (format_docstring_step2 O c s1 s2 o H V) as (F & S).
    destruct (format_docstring O c s1 o), (format_docstring O c s2 o). cbn [fst snd] in *. subst. split; [reflexivity|exact S].
  - destruct (format_summary_step2 O c s1 s2 o H V) as (F & S).
    destruct (format_summary O c s1 o), (format_summary O c s2 o). cbn [fst snd] in *. subst. split; [reflexivity|exact S].
  - destruct (format_toc_step2 O c s1 s2 o H V) as (F & S).
    destruct (format_toc O c s1 o), (format_toc O c s2 o). cbn [fst snd] in *. subst. split; [reflexivity|exact S].
Qed.

(* C08_isolation: non-interference *)
Theorem isolation_noninterference O c s1 s2 k o :
  renders_own_docstring c s1 o -> same_view o s1 s2 ->
  fst (run_opk O c s1 k o) = fst (run_opk O c s2 k o) /\
  same_view o (snd (run_opk O c s1 k o)) (snd (run_opk O c s2 k o)) /\
  exists d, reports (snd (run_opk O c s1 k o)) = reports s1 ++ d /\
            reports (snd (run_opk O c s2 k o)) = reports s2 ++ d.
Proof.
  intros H V. destruct (run_opk_step2 O c s1 s2 k o H V) as (F & S & D). split; [exact F|]. split; [exact S|exact D].
Qed.

(* ... and its consequence: whatever was rendered for o before, o' renders the same *)
Theorem isolation_other_object O c st k k' o o' :
  o <> o' -> renders_own_docstring c st o -> renders_own_docstring c st o' ->
  let st1 := snd (run_opk O c st k o) in
  fst (run_opk O c st1 k' o') = fst (run_opk O c st k' o') /\
  exists d, reports (snd (run_opk O c st1 k' o')) = reports st1 ++ d /\
            reports (snd (run_opk O c st k' o')) = reports st ++ d.
Proof.
  intros Hne Ho Ho'. cbn zeta.
  destruct (run_opk_touches O c st k o Ho) as (Hfr & _).
  assert (Hv : same_view o' st (snd (run_opk O c st k o))) by (apply Hfr; congruence).
  assert (Ho1 : renders_own_docstring c (snd (run_opk O c st k o)) o').
  { destruct Ho' as [H|H]; [left; exact H|right]. destruct Hv as (Hp & _). rewrite <- Hp. exact H. }
  destruct (isolation_noninterference O c _ st k' o' Ho1 (same_view_sym _ _ _ Hv)) as (F & _ & D).
  split; [exact F|exact D].
Qed.

(* ------------------------------------------------------------------ format_toc totality *)
Lemma get_toc_never_raises O pd : get_toc O pd <> Raised.
Proof. destruct pd as [t|p|s]; cbn [get_toc]; try discriminate. destruct (toc_of O p); discriminate. Qed.

Theorem toc_total O c st o : fst (format_toc O c st o) <> Raised.
Proof.
  unfold format_toc. destruct (ensure_parsed_docstring O c st o) as [src st1].
  destruct (pdoc st1 o) as [pd|]; [|discriminate]. destruct (toc_enabled c); [|discriminate].
  pose proof (get_toc_never_raises O pd) as H. destruct (get_toc O pd) as [[tp|]|]; [|discriminate|contradiction].
  destruct (safe_to_stan O c st1 tp o FB_broken false SEC_DOCSTRING). discriminate.
Qed.

(* format_toc changes nothing but what ensure_parsed_docstring changes: the toc renderer failing is not reported
   (report=False) and leaves BROKEN in the side bar only *)
Theorem toc_state O c st o : snd (format_toc O c st o) = snd (ensure_parsed_docstring O c st o).
Proof.
  unfold format_toc. destruct (ensure_parsed_docstring O c st o) as [src st1]. cbn [snd].
  destruct (pdoc st1 o) as [pd|]; [|reflexivity]. destruct (toc_enabled c); [|reflexivity].
  destruct (get_toc O pd) as [[tp|]|]; try reflexivity.
  unfold safe_to_stan. destruct (to_stan_p O tp); reflexivity.
Qed.

(* ------------------------------------------------------------------ inherited docstrings *)
Definition inherited_state (O : oracles) (c : config) (st : state) (o b : oid) (t : text) : state :=
  set_pdoc (report_errors st b (snd (parse_outcome O c (applicable_format c b) t)) SEC_DOCSTRING) o
           (Some (fst (parse_outcome O c (applicable_format c b) t))).

Lemma ensure_inherited_fresh O c st o b a t :
  docstring c o = None -> get_docstring_from c (inherits c o) = (Some (a :: t), Some b) -> pdoc st o = None ->
  ensure_parsed_docstring O c st o = (Some b, inherited_state O c st o b (a :: t)).
Proof.
  intros Hd Hi Hp. rewrite ensure_eq. unfold ensure_spec.
  rewrite (get_docstring_inherited _ _ Hd), Hi, Hp, parse_docstring_eq. reflexivity.
Qed.

Lemma inherited_state_pdoc O c st o b t :
  pdoc (inherited_state O c st o b t) o = Some (fst (parse_outcome O c (applicable_format c b) t)).
Proof. unfold inherited_state. cbn [set_pdoc pdoc]. apply upd_same. Qed.

Theorem inherited_fallback_is_whole_text O c st o b a t :
  docstring c o = None -> get_docstring_from c (inherits c o) = (Some (a :: t), Some b) -> pdoc st o = None ->
  gives_up O c (applicable_format c b) (a :: t) ->
  format_docstring O c st o =
  ({| d_body := BStan (SPre (a :: t)); d_fields := [] |}, inherited_state O c st o b (a :: t)) /\
  (raised_error_is_recorded O -> in_parse_errors (inherited_state O c st o b (a :: t)) SEC_DOCSTRING b) /\
  (forall sec, mem_pe sec o (parse_errors (inherited_state O c st o b (a :: t))) = true ->
               o <> b -> mem_pe sec o (parse_errors st) = true).
Proof.
  intros Hd Hi Hp Hg. split; [|split].
  - unfold format_docstring. rewrite (ensure_inherited_fresh _ _ _ _ _ _ _ Hd Hi Hp), inherited_state_pdoc.
    rewrite (gives_up_outcome _ _ _ _ Hg). reflexivity.
  - intros Hc. unfold inherited_state, in_parse_errors. cbn [set_pdoc parse_errors].
    apply report_errors_mem_after. apply (gives_up_errs_nonempty _ _ _ _ Hc Hg).
  - intros sec Hm Hne. unfold inherited_state in Hm. cbn [set_pdoc parse_errors] in Hm.
    rewrite report_errors_mem_other in Hm by exact Hne. exact Hm.
Qed.

Theorem inherited_to_stan_failure O c st o b d p :
  docstring c o = None -> get_docstring_from c (inherits c o) = (d, Some b) ->
  pdoc st o = Some (PMark p) -> to_stan O p = None ->
  let r := format_docstring O c st o in
  d_body (fst r) = BStan (match docstring c b with Some t => SPre t | None => SBroken end) /\
  in_parse_errors (snd r) SEC_DOCSTRING b /\
  (o <> b -> forall sec, mem_pe sec o (parse_errors (snd r)) = mem_pe sec o (parse_errors st)).
Proof.
  intros Hd Hi Hp Hts. cbn zeta.
  assert (Hs : cached_source c o = Some b).
  { unfold cached_source. rewrite (get_docstring_inherited _ _ Hd), Hi. reflexivity. }
  rewrite (format_docstring_cached _ _ _ _ _ Hp), Hs.
  destruct (render_with_to_stan_fails O c st p b Hts) as (B & I & _). split; [exact B|]. split; [exact I|].
  intros Hne sec. unfold render_with. cbn [snd].
  destruct (format_fields_touches O c (snd (safe_to_stan O c st (PMark p) b FB_docstring true SEC_DOCSTRING)) b
                                  (fields_p O (PMark p))) as (F2 & _).
  destruct (safe_to_stan_touches O c st (PMark p) b FB_docstring true SEC_DOCSTRING) as (F1 & _).
  destruct (F2 o Hne) as (_ & _ & M2). destruct (F1 o Hne) as (_ & _ & M1). rewrite <- M2, <- M1. reflexivity.
Qed.

(* ------------------------------------------------------------------ epytext tail *)
Lemma find_first_fatal (errors : list (N * bool)) e :
  first_fatal errors e -> find (fun x => snd x) errors = Some e.
Proof.
  intros (pre & post & -> & Hf & Hpre). induction pre as [|x pre IH]; cbn [app find].
  - rewrite Hf. reflexivity.
  - inversion Hpre as [|? ? Hx Hrest]; subst. rewrite Hx. apply IH. exact Hrest.
Qed.

Lemma find_some_first_fatal (errors : list (N * bool)) e :
  find (fun x => snd x) errors = Some e -> first_fatal errors e.
Proof.
  induction errors as [|x l IH]; cbn [find]; [discriminate|].
  destruct (snd x) eqn:Hx.
  - intros [= <-]. exists [], l. repeat split; [exact Hx|constructor].
  - intros H. destruct (IH H) as (pre & post & -> & Hf & Hpre). exists (x :: pre), post.
    repeat split; [exact Hf|constructor; assumption].
Qed.

Theorem epytext_fatal_raises {T} (errors : list (N * bool)) (tree : T) :
  (forall e, In e errors -> snd e = true ->
             exists e0, epytext_tail errors tree = inl e0 /\ first_fatal errors e0 /\ In e0 errors) /\
  ((forall e, In e errors -> snd e = false) -> epytext_tail errors tree = inr tree).
Proof.
  unfold epytext_tail. split.
  - intros e Hin Hf. destruct (find (fun x => snd x) errors) as [e0|] eqn:E.
    + exists e0. split; [reflexivity|]. split; [apply find_some_first_fatal; exact E|].
      apply find_some in E. apply E.
    + pose proof (find_none _ _ E e Hin) as Hx. cbn beta in Hx. congruence.
  - intros Hall. destruct (find (fun x => snd x) errors) as [e0|] eqn:E; [|reflexivity].
    apply find_some in E. destruct E as (Hin & Hf). rewrite (Hall e0 Hin) in Hf. discriminate.
Qed.

(* so epytext.parse_docstring, seen as a parser oracle, meets the contract of C08_reported_against_object *)
Lemma epytext_presult_contract errors p errs :
  epytext_presult errors p = PR_parse_error errs -> errs <> [].
Proof.
  unfold epytext_presult, epytext_tail. destruct (find (fun x => snd x) errors) as [e0|] eqn:E; [|discriminate].
  intros [= <-]. apply find_some in E. destruct E as (Hin & _). destruct errors; [destruct Hin|discriminate].
Qed.

(* ------------------------------------------------------------------ ParsedEpytextDocstring.to_node caching *)
Lemma epytext_to_node_stable has_tree d document :
  let r1 := epytext_to_node has_tree (ConvOk d) document in
  let r2 := epytext_to_node has_tree (ConvOk d) (snd r1) in
  fst r2 = fst r1 /\ snd r2 = snd r1 /\ fst r1 <> Raised.
Proof.
  destruct document as [x|]; cbn [epytext_to_node fst snd]; [repeat split; discriminate|].
  destruct has_tree; cbn [epytext_to_node fst snd]; repeat split; discriminate.
Qed.

(* since ef2e650: a failing conversion fails on EVERY call (nothing is cached) *)
Lemma epytext_to_node_fails_alike :
  epytext_to_node true ConvRaise None = (Raised, None).
Proof. reflexivity. Qed.

(* to_node is deterministic, whatever the conversion does: the second call returns what the first returned *)
Lemma epytext_to_node_deterministic has_tree conv document :
  let r1 := epytext_to_node has_tree conv document in
  fst (epytext_to_node has_tree conv (snd r1)) = fst r1.
Proof.
  destruct document as [x|]; cbn [epytext_to_node fst snd]; [reflexivity|].
  destruct has_tree; [destruct conv|]; reflexivity.
Qed.

(* ------------------------------------------------------------------ renderer failure, whatever was called before *)
Lemma ensure_pdoc_after O c st o a t p errs :
  docstring c o = Some (a :: t) ->
  effective_parser O c (applicable_format c o) (a :: t) = PRok (PMark p) errs ->
  pdoc st o = None \/ pdoc st o = Some (PMark p) ->
  pdoc (snd (ensure_parsed_docstring O c st o)) o = Some (PMark p) /\
  fst (ensure_parsed_docstring O c st o) = Some o.
Proof.
  intros Hd E [Hp|Hp].
  - rewrite (ensure_fresh _ _ _ _ _ _ Hd Hp). cbn [fst snd]. rewrite parsed_state_pdoc.
    unfold parse_outcome. rewrite E. split; reflexivity.
  - rewrite (ensure_cached _ _ _ _ _ Hp), (cached_source_own _ _ _ Hd). cbn [fst snd]. split; [exact Hp|reflexivity].
Qed.

Lemma format_docstring_pdoc O c st o : pdoc (snd (format_docstring O c st o)) = pdoc (snd (ensure_parsed_docstring O c st o)).
Proof.
  unfold format_docstring. destruct (ensure_parsed_docstring O c st o) as [src st1]. cbn [snd].
  destruct src as [src|]; [|reflexivity]. destruct (pdoc st1 o) as [pd|]; [|reflexivity].
  pose proof (safe_to_stan_pdoc O c st1 pd src FB_docstring true SEC_DOCSTRING) as H1.
  destruct (safe_to_stan O c st1 pd src FB_docstring true SEC_DOCSTRING) as [s st2]. cbn [snd] in H1.
  pose proof (format_fields_pdoc O c st2 src (fields_p O pd)) as H2.
  destruct (format_fields O c st2 src (fields_p O pd)) as [fs st3]. cbn [snd] in *. congruence.
Qed.

Lemma format_summary_pdoc O c st o : pdoc (snd (format_summary O c st o)) = pdoc (snd (ensure_parsed_docstring O c st o)).
Proof.
  unfold format_summary, get_parsed_summary. destruct (ensure_parsed_docstring O c st o) as [src st1]. cbn [snd].
  destruct (psum st1 o) as [ps|]; rewrite safe_to_stan_pdoc; reflexivity.
Qed.

Lemma run_opk_pdoc O c st k o : pdoc (snd (run_opk O c st k o)) = pdoc (snd (ensure_parsed_docstring O c st o)).
Proof.
  destruct k; cbn [run_opk].
  - pose proof (format_docstring_pdoc O c st o) as H. destruct (format_docstring O c st o). exact H.
  - pose proof (format_summary_pdoc O c st o) as H. destruct (format_summary O c st o). exact H.
  - pose proof (toc_state O c st o) as H. destruct (format_toc O c st o). cbn [snd] in *. rewrite H. reflexivity.
Qed.

Theorem to_stan_failure_any_order O c st o a t p errs (prior : list opk) :
  docstring c o = Some (a :: t) -> pdoc st o = None ->
  effective_parser O c (applicable_format c o) (a :: t) = PRok (PMark p) errs -> to_stan O p = None ->
  let st1 := fold_left (fun s k => snd (run_opk O c s k o)) prior st in
  d_body (fst (format_docstring O c st1 o)) = BStan (SPre (a :: t)) /\
  in_parse_errors (snd (format_docstring O c st1 o)) SEC_DOCSTRING o.
Proof.
  intros Hd Hp E Hts. cbn zeta.
  assert (Hinv : forall l s, (pdoc s o = None \/ pdoc s o = Some (PMark p)) ->
                   let s1 := fold_left (fun s k => snd (run_opk O c s k o)) l s in
                   pdoc s1 o = None \/ pdoc s1 o = Some (PMark p)).
  { induction l as [|k l IH]; intros s Hs; cbn [fold_left]; [exact Hs|]. apply IH. right.
    rewrite run_opk_pdoc. apply (ensure_pdoc_after O c s o a t p errs Hd E Hs). }
  specialize (Hinv prior st (or_introl Hp)). cbn zeta in Hinv.
  set (st1 := fold_left (fun s k => snd (run_opk O c s k o)) prior st) in *.
  destruct Hinv as [Hn|Hs].
  - rewrite (format_docstring_fresh _ _ _ _ _ _ Hd Hn).
    assert (Ho : parse_outcome O c (applicable_format c o) (a :: t) = (PMark p, errs))
      by (unfold parse_outcome; rewrite E; reflexivity).
    rewrite Ho. cbn [fst].
    destruct (render_with_to_stan_fails O c (parsed_state O c st1 o (a :: t)) p o Hts) as (B & I & _).
    rewrite Hd in B. split; assumption.
  - destruct (to_stan_failure_fallback O c st1 o p (a :: t) Hs Hts Hd) as (B & I & _). split; assumption.
Qed.

(* ------------------------------------------------------------------ fields whose renderer fails *)
Definition field_stan (O : oracles) (f : N) : stan :=
  match to_stan O f with Some s => SMark s | None => SBroken end.

Lemma format_fields_result O c st src fs : fst (format_fields O c st src fs) = map (field_stan O) fs.
Proof.
  revert st. induction fs as [|f fs IH]; intros st; cbn [format_fields map]; [reflexivity|].
  unfold field_stan at 1. destruct (to_stan O f) as [s|] eqn:E.
  - rewrite (safe_to_stan_ok O c st (PMark f) src FB_broken true SEC_DOCSTRING (SMark s))
      by (cbn [to_stan_p]; rewrite E; reflexivity).
    specialize (IH st). destruct (format_fields O c st src fs). cbn [fst] in *. rewrite IH. reflexivity.
  - rewrite (safe_to_stan_fail O c st (PMark f) src FB_broken true SEC_DOCSTRING)
      by (cbn [to_stan_p]; rewrite E; reflexivity).
    cbn [run_fallback fst snd]. specialize (IH (report_errors st src [EToStanExc] SEC_DOCSTRING)).
    destruct (format_fields O c (report_errors st src [EToStanExc] SEC_DOCSTRING) src fs). cbn [fst] in *.
    rewrite IH. reflexivity.
Qed.

Lemma format_fields_failure_reported O c st src fs f :
  In f fs -> to_stan O f = None ->
  mem_pe SEC_DOCSTRING src (parse_errors (snd (format_fields O c st src fs))) = true.
Proof.
  revert st. induction fs as [|g fs IH]; intros st Hin Hf; [destruct Hin|]. cbn [format_fields].
  destruct Hin as [->|Hin].
  - rewrite (safe_to_stan_fail O c st (PMark f) src FB_broken true SEC_DOCSTRING)
      by (cbn [to_stan_p]; rewrite Hf; reflexivity).
    cbn [run_fallback fst snd].
    pose proof (format_fields_mem_monotone O c (report_errors st src [EToStanExc] SEC_DOCSTRING) src fs SEC_DOCSTRING src
                 (report_errors_mem_after st src [EToStanExc] SEC_DOCSTRING ltac:(discriminate))) as H.
    destruct (format_fields O c (report_errors st src [EToStanExc] SEC_DOCSTRING) src fs). exact H.
  - destruct (safe_to_stan O c st (PMark g) src FB_broken true SEC_DOCSTRING) as [s st1].
    specialize (IH st1 Hin Hf). destruct (format_fields O c st1 src fs). exact IH.
Qed.

(* a docstring whose body renders: the body is kept, each field shows its rendering or BROKEN, and a failing field is reported *)
Theorem field_failure O c st o p s d :
  pdoc st o = Some (PMark p) -> docstring c o = Some d -> to_stan O p = Some s ->
  let r := format_docstring O c st o in
  d_body (fst r) = BStan (SMark s) /\
  d_fields (fst r) = map (field_stan O) (fields_of O p) /\
  (forall f, In f (fields_of O p) -> to_stan O f = None -> in_parse_errors (snd r) SEC_DOCSTRING o) /\
  ((forall f, In f (fields_of O p) -> to_stan O f <> None) -> ~ In SBroken (d_fields (fst r))).
Proof.
  intros Hp Hd Hs. cbn zeta. rewrite (format_docstring_cached _ _ _ _ _ Hp), (cached_source_own _ _ _ Hd).
  unfold render_with.
  rewrite (safe_to_stan_ok O c st (PMark p) o FB_docstring true SEC_DOCSTRING (SMark s))
    by (cbn [to_stan_p]; rewrite Hs; reflexivity).
  cbn [fst snd d_body d_fields fields_p]. split; [reflexivity|]. split; [apply format_fields_result|]. split.
  - intros f Hin Hf. apply (format_fields_failure_reported O c st o (fields_of O p) f Hin Hf).
  - intros Hall Hb. rewrite format_fields_result in Hb. apply in_map_iff in Hb. destruct Hb as (f & Hfs & Hin).
    unfold field_stan in Hfs. destruct (to_stan O f) eqn:E; [discriminate|]. exact (Hall f Hin E).
Qed.
