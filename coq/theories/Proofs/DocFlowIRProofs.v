(* Proofs/DocFlowIRProofs.v -- the interpretation of the bodies translated from the CURRENT pydoctor/epydoc2stan.py
   (Gen/DocFlowCode.v) is the hand-written model of Model/DocFlow.v, for every state, configuration, argument and
   oracle behaviour.  The proofs are symbolic executions: unfold the generated term, evaluate, split on what the oracles
   and the state answer; they do not depend on the exact shape of the generated code. *)
From Coq Require Import ZArith NArith List Bool Lia.
From PydoctorVerif Require Import Base.Sexp Model.DocFlow Model.DocFlowIR Gen.DocFlowCode Proofs.DocFlowProofs.
Import ListNotations.
Local Open Scope N_scope.

(* one step of symbolic execution: evaluate, use what is known, split on the next undetermined test *)
Ltac sym_step :=
  match goal with
  | |- ?a = ?a => reflexivity
  | H : ?x = _ |- context [?x] => rewrite H
  | |- context [N.eqb ?a ?b] => destruct (N.eqb a b) eqn:?
  | |- context [match ?x with _ => _ end] =>
      (* innermost first: never split on a scrutinee that still contains an undetermined test *)
      lazymatch x with
      | context [match _ with _ => _ end] => fail
      | _ => destruct x eqn:?
      end
  end.
Ltac sym := repeat (cbn in *; try discriminate; try sym_step).

Theorem code_report_errors_is_model O c st who errs sec :
  run_report_errors docflow_code O c [VObj who; VErrs errs; VSec sec] st =
  CRet VNone (report_errors st who errs sec).
Proof.
  unfold run_report_errors, run_fn. change (c_report_errors docflow_code) with code_report_errors.
  unfold code_report_errors. destruct errs as [|e errs]; sym.
Qed.

Definition markup_value (m : option N) : value := match m with Some f => VFmt f | None => VNone end.

Ltac sym2 :=
  repeat (cbn -[run_report_errors run_parse_docstring report_errors parse_docstring] in *;
          unfold processtypes_wrap, base_parser in *; rewrite ?app_nil_r in *; try discriminate; try congruence;
          try rewrite code_report_errors_is_model; try sym_step).

Theorem code_parse_docstring_is_model O c st obj doc source markup sec :
  run_parse_docstring docflow_code O c [VObj obj; VText doc; VObj source; markup_value markup; VSec sec] st =
  CRet (VParsed (fst (parse_docstring O c st obj doc source markup sec)))
       (snd (parse_docstring O c st obj doc source markup sec)).
Proof.
  unfold run_parse_docstring, run_fn. change (c_parse_docstring docflow_code) with code_parse_docstring.
  unfold code_parse_docstring, parse_docstring, effective_parser, base_parser, processtypes_wrap, skip_processtypes,
    callee_report, F_REPORT_ERRORS.
  destruct markup as [m|]; cbn [markup_value].
  - generalize m as f. intros f. sym2.
  - generalize (get_docformat c source) as f. intros f. sym2.
Qed.
