(* Proofs/DocFlowIRProofs.v -- the interpretation of the bodies translated from the CURRENT pydoctor/epydoc2stan.py
   (Gen/DocFlowCode.v) is the hand-written model of Model/DocFlow.v, for every state, configuration, argument and
   oracle behaviour.  The proofs are symbolic executions: unfold the generated term, evaluate, split on what the oracles
   and the state answer; they do not depend on the exact shape of the generated code. *)
From Coq Require Import ZArith NArith List Bool Lia.
From PydoctorVerif Require Import Base.Sexp Model.DocFlow Model.DocFlowIR Gen.DocFlowCode Proofs.DocFlowProofs.
Import ListNotations.
Local Open Scope N_scope.

(* split on the leftmost ATOMIC test of a boolean expression (so that the same test written as `a and not b` or as
   `not (not a or b)` gives the same case analysis) *)
Ltac split_atom b :=
  lazymatch b with
  | negb ?x => split_atom x
  | andb ?x ?y => first [split_atom x | split_atom y]
  | orb ?x ?y => first [split_atom x | split_atom y]
  | true => fail
  | false => fail
  | context [match _ with _ => _ end] => fail
  | _ => destruct b eqn:?
  end.

(* one step of symbolic execution: evaluate, use what is known, split on the next undetermined test *)
Ltac sym_step :=
  match goal with
  | |- ?a = ?a => reflexivity
  | H : ?x = _ |- context [?x] => rewrite H
  | |- context [N.eqb ?a ?b] => destruct (N.eqb a b) eqn:?
  | |- context [match ?x with _ => _ end] =>
      (* innermost first: never split on a scrutinee that still contains an undetermined test *)
      lazymatch x with
      | context [match _ with _ => _ end] => fail
      | _ => lazymatch type of x with
             | bool => split_atom x
             | _ => destruct x eqn:?
             end
      end
  end.

(* closes the branches whose recorded test results contradict each other (f = 2 and f = 4, ...) *)
Ltac absurd_tests :=
  solve [ repeat match goal with
                 | H : (?a =? _) = true |- _ => apply N.eqb_eq in H; first [subst a | rewrite H in *]
                 end;
          cbn in *; rewrite ?app_nil_r in *; congruence ].

Ltac sym := repeat (cbn; try congruence; try solve [cbn in *; congruence]; try sym_step).

Theorem code_report_errors_is_model O c st who errs sec :
  run_report_errors docflow_code O c [VObj who; VErrs errs; VSec sec] st =
  CRet VNone (report_errors st who errs sec).
Proof.
  unfold run_report_errors, run_fn. change (c_report_errors docflow_code) with code_report_errors.
  unfold code_report_errors. destruct errs as [|e errs]; sym.
Qed.

Definition markup_value (m : option N) : value := match m with Some f => VFmt f | None => VNone end.

Ltac sym2 :=
  repeat (cbn -[run_report_errors run_parse_docstring report_errors parse_docstring get_docformat];
          unfold processtypes_wrap, base_parser, F_PLAINTEXT; rewrite ?app_nil_r; try congruence;
          try absurd_tests;
          try first [rewrite code_report_errors_is_model | sym_step]).

Theorem code_parse_docstring_is_model O c st obj doc source markup sec :
  run_parse_docstring docflow_code O c [VObj obj; VText doc; VObj source; markup_value markup; VSec sec] st =
  CRet (VParsed (fst (parse_docstring O c st obj doc source markup sec)))
       (snd (parse_docstring O c st obj doc source markup sec)).
Proof.
  unfold run_parse_docstring, run_fn. change (c_parse_docstring docflow_code) with code_parse_docstring.
  unfold code_parse_docstring, parse_docstring, effective_parser, base_parser, processtypes_wrap, skip_processtypes,
    callee_report, F_REPORT_ERRORS, F_PLAINTEXT.
  destruct markup as [m|]; cbn [markup_value].
  - sym2.
  - sym2.
Qed.

Corollary code_parse_docstring_default O c st obj doc source sec :
  run_parse_docstring docflow_code O c [VObj obj; VText doc; VObj source; VNone; VSec sec] st =
  CRet (VParsed (fst (parse_docstring O c st obj doc source None sec)))
       (snd (parse_docstring O c st obj doc source None sec)).
Proof. exact (code_parse_docstring_is_model O c st obj doc source None sec). Qed.

(* model.get_docstring never returns a docstring without its source *)
Lemma get_docstring_from_has_source c l d : get_docstring_from c l = (Some d, None) -> False.
Proof.
  induction l as [|s l IH]; cbn [get_docstring_from]; [discriminate|].
  destruct (docstring c s) as [[|a t]|]; [discriminate|discriminate|exact IH].
Qed.

Ltac sym3 :=
  repeat (cbn -[run_report_errors run_parse_docstring report_errors parse_docstring get_docstring run_fallback];
          unfold set_pdoc, upd; rewrite ?N.eqb_refl; try congruence;
          try solve [cbn in *; unfold upd in *; rewrite ?N.eqb_refl in *; cbn in *; congruence];
          try absurd_tests;
          try first [rewrite code_report_errors_is_model | rewrite code_parse_docstring_default | sym_step]).

Theorem code_ensure_parsed_docstring_is_model O c st o :
  run_ensure_parsed_docstring docflow_code O c [VObj o] st =
  CRet (opt_value VObj (fst (ensure_parsed_docstring O c st o))) (snd (ensure_parsed_docstring O c st o)).
Proof.
  unfold run_ensure_parsed_docstring, run_fn.
  change (c_ensure_parsed_docstring docflow_code) with code_ensure_parsed_docstring.
  unfold code_ensure_parsed_docstring, ensure_parsed_docstring, ensure_from, callee_parse, callee_report,
    F_PARSE_DOCSTRING, F_REPORT_ERRORS, SEC_DOCSTRING, set_pdoc, upd.
  destruct (get_docstring c o) as [[d|] [s|]] eqn:Hg.
  - sym3.
  - exfalso. unfold get_docstring in Hg. exact (get_docstring_from_has_source _ _ _ Hg).
  - sym3.
  - sym3.
Qed.

Theorem code_safe_to_stan_is_model O c st pd linker ctx fb rep sec :
  run_safe_to_stan docflow_code O c [VParsed pd; linker; VObj ctx; VFb fb; VBool rep; VSec sec] st =
  CRet (VStan (fst (safe_to_stan O c st pd ctx fb rep sec))) (snd (safe_to_stan O c st pd ctx fb rep sec)).
Proof.
  unfold run_safe_to_stan, run_fn. change (c_safe_to_stan docflow_code) with code_safe_to_stan.
  unfold code_safe_to_stan, safe_to_stan, callee_report, F_REPORT_ERRORS.
  sym3.
Qed.

(* ---- the property itself, on the code translated from epydoc2stan.py --------------------------------------- *)
From PydoctorVerif Require Import Spec.DocContract.

Theorem code_parse_docstring_falls_back O c st obj doc source sec :
  gives_up O c (applicable_format c source) doc ->
  exists st', run_parse_docstring docflow_code O c [VObj obj; VText doc; VObj source; VNone; VSec sec] st =
              CRet (VParsed (PPlain doc)) st' /\
              (raised_error_is_recorded O -> mem_pe sec source (parse_errors st') = true).
Proof.
  intros Hg. rewrite code_parse_docstring_default, parse_docstring_eq. cbn [fst snd chosen_format].
  rewrite get_docformat_applicable, (gives_up_outcome _ _ _ _ Hg).
  eexists. split; [reflexivity|]. intros Hc. apply report_errors_mem_after.
  apply (gives_up_errs_nonempty _ _ _ _ Hc Hg).
Qed.
