(* Proofs/DisplayProofs.v -- from the displayed TEXT back to the tree:
     every layout text of compile pc e (Proofs/WrapProofs.flatP: what a complete run emits) is lexed by
     Spec/PyTokenizer into exactly the tokens pp pc e, hence parse_text gives norm e. *)
From Coq Require Import ZArith NArith List Bool Lia Arith.
From PydoctorVerif Require Import Base.Sexp Base.PyExpr Gen.TablesC15 Model.StrEsc Model.Wrap Spec.PyGrammar Spec.PyLex
     Spec.PyTokenizer Model.ExprPrint Proofs.PyGrammarProofs Proofs.PyGrammarFuel Proofs.WrapProofs Proofs.StrEscProofs
     Proofs.TokenizerProofs Proofs.ExprPrintProofs.
Import ListNotations.
Local Open Scope N_scope.

(* ------------------------------------------------------------------ pieces *)
(* LxP w ts: the text w, followed by anything that may follow an expression, lexes to ts followed by the rest *)
Definition LxP (w : text) (ts : list token) : Prop :=
  forall rest tsr, fol rest = true -> Lx rest tsr -> Lx (w ++ rest) (ts ++ tsr).

Lemma alpha_not_ws c : is_alpha c = true -> is_ws c = false.
Proof.
  intros H. unfold is_ws. destruct (N.eqb_spec c 32) as [->|]; [discriminate|].
  destruct (N.eqb_spec c 10) as [->|]; [discriminate|]. reflexivity.
Qed.
Lemma digit_not_ws c : is_digit c = true -> is_ws c = false.
Proof.
  intros H. unfold is_ws. destruct (N.eqb_spec c 32) as [->|]; [discriminate|].
  destruct (N.eqb_spec c 10) as [->|]; [discriminate|]. reflexivity.
Qed.

(* one token whose spelling is c :: w' *)
Lemma Lx_piece c w' rest t ts :
  is_ws c = false -> scan c (w' ++ rest) = Some (t, rest) -> Lx rest ts -> Lx ((c :: w') ++ rest) (t :: ts).
Proof.
  intros Hc Hs H. cbn [app]. apply (Lx_tok c (w' ++ rest) t rest ts Hc Hs); [|exact H].
  rewrite app_length. lia.
Qed.

Lemma Lx_spaces n rest ts : Lx rest ts -> Lx (spaces n ++ rest) ts.
Proof.
  unfold spaces. induction (N.to_nat n) as [|k IH]; intros H; [exact H|].
  cbn [repeat app]. apply Lx_ws; [reflexivity|]. apply IH. exact H.
Qed.

Lemma Lx_name w rest ts : ident_ok w = true -> wfol rest = true -> Lx rest ts -> Lx (w ++ rest) (TName w :: ts).
Proof.
  intros Hok Hf H. pose proof (word_token_name w Hok) as Ht.
  destruct w as [|c w']; [discriminate|]. unfold ident_ok in Hok.
  apply andb_true_iff in Hok. destruct Hok as [Hok _]. apply andb_true_iff in Hok. destruct Hok as [Hc Hw].
  apply Lx_piece; [apply alpha_not_ws; exact Hc| |exact H].
  apply scan_word; assumption.
Qed.

Lemma Lx_number w rest ts : num_ok w = true -> fol rest = true -> Lx rest ts -> Lx (w ++ rest) (TLeaf (LConst (KNum w)) :: ts).
Proof.
  intros Hok Hf H. pose proof (scan_number w rest Hok Hf) as Hs.
  destruct w as [|c w']; [contradiction|].
  apply Lx_piece; [|exact Hs|exact H].
  unfold num_ok in Hok. do 3 (apply andb_true_iff in Hok; destruct Hok as [Hok ?]). apply digit_not_ws. exact Hok.
Qed.

Lemma fol_not_sq rest : fol rest = true -> hd_is rest 39 = false.
Proof.
  destruct rest as [|r rest]; [reflexivity|]. cbn [fol hd_is]. intros H.
  pose proof (sep_not_quote r H) as Hq. unfold is_quote in Hq. apply orb_false_iff in Hq. tauto.
Qed.

Lemma Lx_literal b raw w rest ts :
  lit_ok b raw = true -> (w = lit_single b raw \/ w = lit_triple b raw) -> fol rest = true -> Lx rest ts ->
  Lx (w ++ rest) (lit_token b raw :: ts).
Proof.
  intros Hok Hw Hf H. destruct Hw as [-> | ->].
  - pose proof (scan_literal_single b raw rest Hok (fol_not_sq rest Hf)) as Hs.
    destruct (lit_single b raw ++ rest) as [|c s] eqn:E; [contradiction|].
    assert (Hc : is_ws c = false).
    { unfold lit_single, lit_prefix in E. destruct b; cbn [app] in E; inversion E; reflexivity. }
    apply (Lx_tok c s _ rest ts Hc Hs); [|exact H].
    assert (Hl : length (lit_single b raw ++ rest) = S (length s)) by (rewrite E; reflexivity).
    assert (H1 : (1 <= length (lit_single b raw))%nat) by (unfold lit_single, lit_prefix; destruct b; cbn [app length]; lia).
    rewrite app_length in Hl. lia.
  - pose proof (scan_literal_triple b raw rest Hok) as Hs.
    destruct (lit_triple b raw ++ rest) as [|c s] eqn:E; [contradiction|].
    assert (Hc : is_ws c = false).
    { unfold lit_triple, lit_prefix in E. destruct b; cbn [app] in E; inversion E; reflexivity. }
    apply (Lx_tok c s _ rest ts Hc Hs); [|exact H].
    assert (Hl : length (lit_triple b raw ++ rest) = S (length s)) by (rewrite E; reflexivity).
    assert (H1 : (1 <= length (lit_triple b raw))%nat) by (unfold lit_triple, lit_prefix; destruct b; cbn [app length]; lia).
    rewrite app_length in Hl. lia.
Qed.

(* the operator keywords and constants, as the colouriser writes them *)
Lemma Lx_word_const (w : text) t rest ts :
  match w with c :: w' => is_alpha c && forallb is_idc w' | [] => false end = true ->
  word_token w = Some t -> wfol rest = true -> Lx rest ts -> Lx (w ++ rest) (t :: ts).
Proof.
  intros Hw Ht Hf H. destruct w as [|c w']; [discriminate|].
  apply andb_true_iff in Hw. destruct Hw as [Hc Hw].
  apply Lx_piece; [apply alpha_not_ws; exact Hc| |exact H]. apply scan_word; assumption.
Qed.

Lemma Lx_op o rest ts : opnext rest = true -> Lx rest ts -> Lx (optok_text o ++ rest) (TOp o :: ts).
Proof.
  intros Hn H. pose proof (scan_op o rest Hn) as Hs.
  destruct (optok_text o) as [|c w] eqn:E; [contradiction|].
  apply Lx_piece; [destruct o; inversion E; reflexivity|exact Hs|exact H].
Qed.

Lemma Lx_char c t rest ts :
  is_ws c = false -> scan c rest = Some (t, rest) -> Lx rest ts -> Lx (c :: rest) (t :: ts).
Proof. intros Hc Hs H. apply (Lx_piece c [] rest t ts Hc Hs H). Qed.

Lemma Lx_lp rest ts : Lx rest ts -> Lx (40 :: rest) (TLP :: ts).
Proof. apply Lx_char; reflexivity. Qed.
Lemma Lx_rp rest ts : Lx rest ts -> Lx (41 :: rest) (TRP :: ts).
Proof. apply Lx_char; reflexivity. Qed.
Lemma Lx_lb rest ts : Lx rest ts -> Lx (91 :: rest) (TLB :: ts).
Proof. apply Lx_char; reflexivity. Qed.
Lemma Lx_rb rest ts : Lx rest ts -> Lx (93 :: rest) (TRB :: ts).
Proof. apply Lx_char; reflexivity. Qed.
Lemma Lx_lc rest ts : Lx rest ts -> Lx (123 :: rest) (TLC :: ts).
Proof. apply Lx_char; reflexivity. Qed.
Lemma Lx_rc rest ts : Lx rest ts -> Lx (125 :: rest) (TRC :: ts).
Proof. apply Lx_char; reflexivity. Qed.
Lemma Lx_comma rest ts : Lx rest ts -> Lx (44 :: rest) (TComma :: ts).
Proof. apply Lx_char; reflexivity. Qed.

(* the text of CComma, in either layout *)
Lemma Lx_comma_layout w rest ts :
  (w = [44; 32] \/ exists n, w = 44 :: NL :: spaces n) -> Lx rest ts -> Lx (w ++ rest) (TComma :: ts).
Proof.
  intros [-> | [n ->]] H.
  - cbn [app]. apply Lx_comma. apply Lx_ws; [reflexivity|exact H].
  - cbn [app]. apply Lx_comma. apply Lx_ws; [reflexivity|]. apply Lx_spaces. exact H.
Qed.

(* ------------------------------------------------------------------ the guard: everything in the tree is lexable text *)
(* first character of an operand: not one that would fuse with the operator before it *)
Definition munch_chars : list N := [42; 47; 60; 62; 61].
Definition startb (t : text) : bool :=
  match t with c :: _ => negb (existsb (N.eqb c) munch_chars) | [] => false end.

Lemma startb_app t r : startb t = true -> startb (t ++ r) = true.
Proof. destruct t; [discriminate|auto]. Qed.

Lemma startb_opnext t : startb t = true -> opnext t = true.
Proof.
  destruct t as [|c t]; [discriminate|]. cbn [startb existsb munch_chars]. intros H.
  apply negb_true_iff in H. repeat (apply orb_false_iff in H; destruct H as [? H]).
  unfold opnext. cbn [hd_is].
  repeat match goal with E : N.eqb c _ = false |- _ => rewrite E; clear E end. reflexivity.
Qed.

Lemma idc_start c r : is_idc c = true -> startb (c :: r) = true.
Proof.
  intros H. cbn [startb]. destruct (existsb (N.eqb c) munch_chars) eqn:E; [|reflexivity].
  apply existsb_exists in E. destruct E as [k [Hin Hk]]. apply N.eqb_eq in Hk. subst k.
  cbn in Hin. repeat (destruct Hin as [<-|Hin]; [discriminate|]). contradiction.
Qed.

Lemma alpha_idc c : is_alpha c = true -> is_idc c = true.
Proof. intros H. unfold is_idc. rewrite H. reflexivity. Qed.

Lemma ident_head w : ident_ok w = true -> exists c w', w = c :: w' /\ is_alpha c = true /\ forallb is_idc w' = true.
Proof.
  destruct w as [|c w']; [discriminate|]. unfold ident_ok. intros H.
  apply andb_true_iff in H. destruct H as [H _]. apply andb_true_iff in H. destruct H. eauto.
Qed.

Lemma ident_start w r : ident_ok w = true -> startb (w ++ r) = true.
Proof. intros H. destruct (ident_head w H) as [c [w' [-> [Hc _]]]]. apply idc_start. apply alpha_idc. exact Hc. Qed.

(* ------------------------------------------------------------------ sequences of output calls *)
Lemma seqP_app l1 : forall l2 w, seqP (l1 ++ l2) w -> exists w1 w2, w = w1 ++ w2 /\ seqP l1 w1 /\ seqP l2 w2.
Proof.
  induction l1 as [|c l1 IH]; intros l2 w H.
  - exists [], w. cbn. auto.
  - cbn [app seqP] in H. destruct H as [a [b [-> [Fa Fb]]]].
    destruct (IH l2 b Fb) as [w1 [w2 [-> [F1 F2]]]].
    exists (a ++ w1), w2. rewrite app_assoc. split; [reflexivity|]. split; [|exact F2].
    cbn [seqP]. eauto.
Qed.

Lemma seqP_one c w : seqP [c] w -> flatP c w.
Proof. cbn [seqP]. intros [a [b [-> [Fa ->]]]]. rewrite app_nil_r. exact Fa. Qed.

(* ------------------------------------------------------------------ operator symbols from the regenerated tables *)
Lemma Lx_bop b r ts : opnext r = true -> Lx r ts -> Lx (bop_text b ++ r) (btok b :: ts).
Proof.
  intros Hn H. destruct b;
    [exact (Lx_op OMinus r ts Hn H)|exact (Lx_op OPlus r ts Hn H)|exact (Lx_op OStar r ts Hn H)
    |exact (Lx_op OSlash r ts Hn H)|exact (Lx_op ODSlash r ts Hn H)|exact (Lx_op OPercent r ts Hn H)
    |exact (Lx_op ODStar r ts Hn H)|exact (Lx_op OLShift r ts Hn H)|exact (Lx_op ORShift r ts Hn H)
    |exact (Lx_op OBar r ts Hn H)|exact (Lx_op OCaret r ts Hn H)|exact (Lx_op OAmp r ts Hn H)
    |exact (Lx_op OAt r ts Hn H)].
Qed.

Lemma Lx_not r ts : Lx r ts -> Lx ([110; 111; 116; 32] ++ r) (TNot :: ts).
Proof.
  intros H. change ([110; 111; 116; 32] ++ r) with ([110; 111; 116] ++ 32 :: r).
  apply Lx_word_const; [reflexivity|reflexivity|reflexivity|]. apply Lx_ws; [reflexivity|exact H].
Qed.

Lemma Lx_uop u r ts : opnext r = true -> Lx r ts -> Lx (uop_text u ++ r) (utok u :: ts).
Proof.
  intros Hn H. destruct u;
    [exact (Lx_op OMinus r ts Hn H)|exact (Lx_op OPlus r ts Hn H)|exact (Lx_not r ts H)|exact (Lx_op OTilde r ts Hn H)].
Qed.

Lemma Lx_boolop o r ts : Lx r ts -> Lx (boolop_text o ++ r) (otok o :: ts).
Proof.
  intros H. destruct o.
  - change (boolop_text And ++ r) with (32 :: [97; 110; 100] ++ 32 :: r). apply Lx_ws; [reflexivity|].
    apply Lx_word_const; [reflexivity|reflexivity|reflexivity|]. apply Lx_ws; [reflexivity|exact H].
  - change (boolop_text Or ++ r) with (32 :: [111; 114] ++ 32 :: r). apply Lx_ws; [reflexivity|].
    apply Lx_word_const; [reflexivity|reflexivity|reflexivity|]. apply Lx_ws; [reflexivity|exact H].
Qed.

Lemma fol_bop b r : fol (bop_text b ++ r) = true.
Proof. destruct b; reflexivity. Qed.
Lemma fol_boolop o r : fol (boolop_text o ++ r) = true.
Proof. destruct o; reflexivity. Qed.
Lemma uop_start u r : startb (uop_text u ++ r) = true.
Proof. destruct u; reflexivity. Qed.

(* ------------------------------------------------------------------ statements *)
Definition GstD (e : expr) : Prop :=
  forall pc t, flatP (compile pc e) t -> startb t = true /\ LxP t (pp pc e).

Definition PstD (e : expr) : Prop :=
  lexable e = true -> ok e = true -> (nst e = true -> GstD e) /\ (forall y, e = EStarred y -> GstD y).

(* an element of a display, possibly starred *)
Definition ElD (x : expr) : Prop := forall t, flatP (compile (POther None) x) t -> LxP t (pp (POther None) x).

Lemma G_of_PD x : PstD x -> lexable x = true -> ok x = true -> nst x = true -> GstD x.
Proof. intros HP H1 H2 H3. destruct (HP H1 H2) as [HG _]. apply HG. exact H3. Qed.

Lemma El_of_PD x : PstD x -> lexable x = true -> ok x = true -> ElD x.
Proof.
  intros HP Hl Hok t Ht. destruct (HP Hl Hok) as [H1 H2].
  destruct (nst_cases x) as [Hns|[y Hy]].
  - apply (H1 Hns (POther None) t Ht).
  - subst x. cbn [compile] in Ht. cbn [flatP] in Ht. destruct Ht as [a [b [-> [Fa [c [d [-> [Fc ->]]]]]]]].
    unfold out in Fa. cbn [flatP] in Fa. subst a. rewrite app_nil_r.
    destruct (H2 y eq_refl (POther None) c Fc) as [Hs HL].
    intros rest tsr Hf H. cbn [pp]. rewrite <- app_assoc. cbn [app].
    apply (Lx_op OStar (c ++ rest) (pp (POther None) y ++ tsr)).
    + apply startb_opnext. apply startb_app. exact Hs.
    + apply HL; assumption.
Qed.

(* ------------------------------------------------------------------ comma-separated items *)
Fixpoint gtoks (first : bool) (l : list (list token)) : list token :=
  match l with
  | [] => []
  | a :: l' => (if first then [] else [TComma]) ++ a ++ gtoks false l'
  end.

Lemma gtoks_false l : gtoks false l = match l with [] => [] | _ => TComma :: commas l end.
Proof.
  induction l as [|a l IH]; [reflexivity|]. cbn [gtoks app]. rewrite IH. rewrite commas_cons.
  destruct l; [rewrite app_nil_r; reflexivity|reflexivity].
Qed.

Lemma gtoks_true l : gtoks true l = commas l.
Proof.
  destruct l as [|a l]; [reflexivity|]. cbn [gtoks app]. rewrite gtoks_false. rewrite commas_cons.
  destruct l; [rewrite app_nil_r; reflexivity|reflexivity].
Qed.

Lemma comma_layout_fol w r : (w = [44; 32] \/ exists n, w = 44 :: NL :: spaces n) -> fol (w ++ r) = true.
Proof. intros [-> | [n ->]]; reflexivity. Qed.

Lemma iter_fol cs w r : seqP (iter_body false cs) w -> fol r = true -> fol (w ++ r) = true.
Proof.
  destruct cs as [|c cs]; cbn [iter_body].
  - cbn [seqP]. intros -> H. exact H.
  - cbn [app seqP]. intros [a [b [-> [Fa _]]]] _. cbn [flatP] in Fa. rewrite <- app_assoc. apply comma_layout_fol. exact Fa.
Qed.

Lemma iter_lx {A : Type} (cmd_of : A -> cmd) (tok_of : A -> list token) (items : list A) :
  Forall (fun a => forall t, flatP (cmd_of a) t -> LxP t (tok_of a)) items ->
  forall first w, seqP (iter_body first (map cmd_of items)) w -> LxP w (gtoks first (map tok_of items)).
Proof.
  induction items as [|x items IH]; intros HF first w Hw.
  - cbn in Hw. subst w. intros rest tsr _ H. exact H.
  - inversion HF as [|? ? Hx HF']; subst.
    cbn [map iter_body] in Hw.
    apply seqP_app in Hw. destruct Hw as [wc [w2 [-> [Fc Hw]]]].
    cbn [app seqP] in Hw. destruct Hw as [wb [w3 [-> [Fb [wx [w4 [-> [Fx F4]]]]]]]].
    cbn [flatP] in Fb. subst wb. cbn [app].
    intros rest tsr Hf H. cbn [map gtoks]. rewrite <- !app_assoc.
    assert (Hrest : Lx (wx ++ w4 ++ rest) (tok_of x ++ gtoks false (map tok_of items) ++ tsr)).
    { apply (Hx wx Fx); [apply (iter_fol _ _ _ F4 Hf)|]. apply (IH HF' false w4 F4); assumption. }
    destruct first.
    + cbn [seqP] in Fc. subst wc. exact Hrest.
    + apply seqP_one in Fc. cbn [flatP] in Fc. cbn [app]. apply Lx_comma_layout; assumption.
Qed.

(* ------------------------------------------------------------------ dotted names *)
Lemma dotted_idents e :
  name_chain e = true -> lexable e = true ->
  exists parts, dotted e = Some parts /\ parts <> [] /\ forallb ident_ok parts = true.
Proof.
  induction e; try discriminate.
  - intros _ Hl. exists [id]. cbn in *. rewrite Hl. repeat split; discriminate.
  - cbn [name_chain lexable]. intros Hc Hl. apply andb_true_iff in Hl. destruct Hl as [Hl Ha].
    apply andb_true_iff in Hl. destruct Hl as [_ Hl].
    destruct (IHe Hc Hl) as [parts [Hd [Hne Hall]]].
    exists (parts ++ [attr]). cbn [dotted]. rewrite Hd. split; [reflexivity|]. split; [destruct parts; discriminate|].
    rewrite forallb_app. rewrite Hall. cbn. rewrite Ha. reflexivity.
Qed.

Lemma Lx_dotted parts :
  parts <> [] -> forallb ident_ok parts = true ->
  forall rest ts, wfol rest = true -> Lx rest ts -> Lx (join_dot parts ++ rest) (dotted_tokens parts ++ ts).
Proof.
  induction parts as [|p parts IH]; [congruence|]. intros _ Hall rest ts Hf H.
  cbn [forallb] in Hall. apply andb_true_iff in Hall. destruct Hall as [Hp Hall].
  destruct parts as [|q parts].
  - cbn [join_dot dotted_tokens app]. apply Lx_name; assumption.
  - change (join_dot (p :: q :: parts)) with (p ++ [46] ++ join_dot (q :: parts)).
    change (dotted_tokens (p :: q :: parts)) with (TName p :: TDot :: dotted_tokens (q :: parts)).
    rewrite <- !app_assoc. cbn [app].
    apply Lx_name; [exact Hp|reflexivity|].
    pose proof Hall as Hall'. cbn [forallb] in Hall'. apply andb_true_iff in Hall'. destruct Hall' as [Hq _].
    destruct (ident_head q Hq) as [c [q' [Eq [Hc _]]]].
    assert (Hj : exists tl, join_dot (q :: parts) ++ rest = c :: tl).
    { destruct parts as [|r parts]; [cbn [join_dot]; rewrite Eq; cbn; eauto|].
      change (join_dot (q :: r :: parts)) with (q ++ [46] ++ join_dot (r :: parts)). rewrite Eq. cbn. eauto. }
    destruct Hj as [tl Hj].
    assert (Hrec : Lx (join_dot (q :: parts) ++ rest) (dotted_tokens (q :: parts) ++ ts))
      by (apply IH; [discriminate|exact Hall|exact Hf|exact H]).
    rewrite Hj in *. apply Lx_char; [reflexivity|apply scan_dot; exact Hc|exact Hrec].
Qed.

(* ------------------------------------------------------------------ parentheses around an operator *)
Lemma wrap_paren w toks :
  LxP w toks -> startb ([40] ++ w ++ [41]) = true /\ LxP ([40] ++ w ++ [41]) (par true toks).
Proof.
  intros HL. split; [reflexivity|]. intros rest tsr Hf H. cbn [par app]. rewrite <- !app_assoc. cbn [app].
  apply Lx_lp. apply HL; [reflexivity|]. apply Lx_rp. exact H.
Qed.

Lemma delim_lx (b : bool) c toks t :
  (forall w, flatP c w -> startb w = true /\ LxP w toks) ->
  flatP (CDelim b c) t -> startb t = true /\ LxP t (par b toks).
Proof.
  intros Hc Ht. cbn [flatP] in Ht. destruct b.
  - destruct Ht as [w [-> Fw]]. apply wrap_paren. apply (Hc w Fw).
  - cbn [par]. apply Hc. exact Ht.
Qed.

(* ------------------------------------------------------------------ boolean chains *)
Lemma chain_lx o es :
  Forall (fun x => forall t, flatP (compile (PBool o) x) t -> startb t = true /\ LxP t (pp (PBool o) x)) es ->
  es <> [] ->
  forall w, seqP (intersperse (out (boolop_text o)) (map (compile (PBool o)) es)) w ->
            startb w = true /\ LxP w (sep_by (otok o) (map (pp (PBool o)) es)).
Proof.
  induction es as [|x es IH]; intros HF Hne w Hw; [congruence|].
  inversion HF as [|? ? Hx HF']; subst.
  destruct es as [|y es].
  - cbn [map intersperse] in Hw. apply seqP_one in Hw. cbn [map sep_by]. apply Hx. exact Hw.
  - change (intersperse (out (boolop_text o)) (map (compile (PBool o)) (x :: y :: es)))
      with (compile (PBool o) x :: out (boolop_text o) :: intersperse (out (boolop_text o)) (map (compile (PBool o)) (y :: es))) in Hw.
    cbn [seqP] in Hw. destruct Hw as [wx [w2 [-> [Fx [ws [w3 [-> [Fs F3]]]]]]]].
    unfold out in Fs. cbn [flatP] in Fs. subst ws.
    destruct (Hx wx Fx) as [Sx Lxx]. destruct (IH HF' ltac:(discriminate) w3 F3) as [S3 L3].
    split; [apply startb_app; exact Sx|].
    change (sep_by (otok o) (map (pp (PBool o)) (x :: y :: es)))
      with (pp (PBool o) x ++ otok o :: sep_by (otok o) (map (pp (PBool o)) (y :: es))).
    intros rest tsr Hf H. rewrite <- !app_assoc. rewrite <- app_comm_cons.
    apply Lxx; [apply fol_boolop|]. apply Lx_boolop. apply L3; assumption.
Qed.

Lemma commas_app (A K : list (list token)) :
  commas (A ++ K) = match A, K with
                    | [], _ => commas K
                    | _, [] => commas A
                    | _, _ => commas A ++ TComma :: commas K
                    end.
Proof.
  induction A as [|a A IH]; [reflexivity|]. destruct K as [|k K]; [rewrite app_nil_r; reflexivity|].
  cbn [app]. rewrite !commas_cons. destruct A as [|a2 A].
  - cbn [app]. reflexivity.
  - rewrite IH. cbn [app]. rewrite <- app_assoc. reflexivity.
Qed.

Lemma Forall_ElD es : Forall PstD es -> forallb lexable es = true -> forallb ok es = true -> Forall ElD es.
Proof.
  induction es as [|x es IH]; intros HF Hl Hok; constructor.
  - inversion HF; subst. cbn in Hl, Hok. apply andb_true_iff in Hl. apply andb_true_iff in Hok. apply El_of_PD; tauto.
  - inversion HF; subst. cbn in Hl, Hok. apply andb_true_iff in Hl. apply andb_true_iff in Hok. apply IH; tauto.
Qed.

Lemma PD_plain e : nst e = true -> (lexable e = true -> ok e = true -> GstD e) -> PstD e.
Proof.
  intros Hns HG Hl Hok. split; [intros _; apply HG; assumption|].
  intros y Hy. subst e. discriminate.
Qed.

Definition itemcmd (kv : ditem) : cmd :=
  match fst kv with
  | Some k => CSeq [compile (POther None) k; out [58; 32]; compile (POther (Some prec_comma)) (snd kv)]
  | None => CSeq [out T_DSTAR; compile (POther None) (snd kv)]
  end.
Lemma compile_dict pc items :
  compile pc (EDict items) = CMulti (CSeq [out [123]; CIndent (CSeq (iter_body true (map itemcmd items))); out [125]]).
Proof. reflexivity. Qed.

Definition kwcmd (kw : kwarg) : cmd :=
  match fst kw with
  | Some name => CSeq [out name; out [61]; compile (POther None) (snd kw)]
  | None => CSeq [out T_DSTAR; compile (POther None) (snd kw)]
  end.
Lemma compile_call pc f args kws :
  compile pc (ECall f args kws) =
  CSeq [compile (POther None) f; out T_LP;
        CIndent (CSeq ([CMulti (iter_cmd None None (map (compile (POther None)) args))] ++
                       match kws with
                       | [] => []
                       | _ => (match args with [] => [] | _ => [CComma] end) ++ [CMulti (iter_cmd None None (map kwcmd kws))]
                       end));
        out T_RP].
Proof. reflexivity. Qed.

Lemma iter_cmd_flat pre suf items w :
  flatP (iter_cmd pre suf items) w ->
  exists wi, w = match pre with Some t => t | None => [] end ++ wi ++ match suf with Some t => t | None => [] end
             /\ seqP (iter_body true items) wi.
Proof.
  unfold iter_cmd. rewrite flatP_CSeq. intros H.
  apply seqP_app in H. destruct H as [wp [w2 [-> [Fp H]]]].
  apply seqP_app in H. destruct H as [wi [ws [-> [Fi Fs]]]].
  apply seqP_one in Fi. change (seqP (iter_body true items) wi) in Fi.
  exists wi. split; [|exact Fi].
  destruct pre as [t|]; cbn [opt_out] in Fp.
  - apply seqP_one in Fp. cbn [flatP] in Fp. subst wp.
    destruct suf as [t'|]; cbn [opt_out] in Fs; [apply seqP_one in Fs; cbn [flatP] in Fs; subst ws; reflexivity|].
    cbn [seqP] in Fs. subst ws. reflexivity.
  - cbn [seqP] in Fp. subst wp.
    destruct suf as [t'|]; cbn [opt_out] in Fs; [apply seqP_one in Fs; cbn [flatP] in Fs; subst ws; reflexivity|].
    cbn [seqP] in Fs. subst ws. reflexivity.
Qed.

Lemma flatP_CIndent c w : flatP (CIndent c) w = flatP c w.
Proof. reflexivity. Qed.
Lemma flatP_CMulti c w : flatP (CMulti c) w = flatP c w.
Proof. reflexivity. Qed.

Lemma fol_dot_free rest : fol rest = true -> hd_is rest 46 = false.
Proof. destruct rest as [|r rest]; [reflexivity|]. cbn [fol hd_is]. apply sep_not_dot. Qed.

Theorem display_all e : PstD e.
Proof.
  induction e using expr_ind2.
  - (* leaves *)
    apply PD_plain; [reflexivity|]. intros Hl _ pc t Ht.
    destruct l as [c|g]; [|discriminate]. cbn [compile pp] in *.
    destruct c; cbn [compile_const lexable] in *.
    + cbn [flatP] in Ht. subst t. split.
      * destruct shown as [|c w]; [discriminate|]. unfold num_ok in Hl.
        do 3 (apply andb_true_iff in Hl; destruct Hl as [Hl ?]). apply idc_start. unfold is_idc. rewrite Hl. apply orb_true_r.
      * intros rest tsr Hf H. apply Lx_number; assumption.
    + cbn [flatP] in Ht. split; [destruct Ht as [-> | ->]; reflexivity|].
      intros rest tsr Hf H. apply (Lx_literal false s t rest tsr eq_refl Ht Hf H).
    + cbn [flatP] in Ht. split; [destruct Ht as [-> | ->]; reflexivity|].
      intros rest tsr Hf H. apply (Lx_literal true b t rest tsr Hl Ht Hf H).
    + cbn [flatP] in Ht. subst t. split; [reflexivity|]. intros rest tsr Hf H.
      apply Lx_word_const; [reflexivity|reflexivity|apply fol_wfol; exact Hf|exact H].
    + cbn [flatP] in Ht. subst t. split; [reflexivity|]. intros rest tsr Hf H.
      apply Lx_word_const; [reflexivity|reflexivity|apply fol_wfol; exact Hf|exact H].
    + cbn [flatP] in Ht. subst t. split; [reflexivity|]. intros rest tsr Hf H.
      apply Lx_word_const; [reflexivity|reflexivity|apply fol_wfol; exact Hf|exact H].
    + cbn [flatP] in Ht. subst t. split; [reflexivity|]. intros rest tsr Hf H.
      apply (Lx_piece 46 [46; 46] rest); [reflexivity|apply scan_ellipsis; apply fol_dot_free; exact Hf|exact H].
  - (* name *)
    apply PD_plain; [reflexivity|]. intros Hl _ pc t Ht. cbn [compile flatP pp lexable] in *. subst t.
    split; [rewrite <- (app_nil_r s); apply ident_start; exact Hl|].
    intros rest tsr Hf H. apply Lx_name; [exact Hl|apply fol_wfol; exact Hf|exact H].
  - (* attribute: only dotted names are lexable *)
    apply PD_plain; [reflexivity|]. intros Hl _ pc t Ht.
    assert (Hc : name_chain (EAttr e a g) = true).
    { cbn [lexable] in Hl. apply andb_true_iff in Hl. destruct Hl as [Hl _]. apply andb_true_iff in Hl. tauto. }
    destruct (dotted_idents _ Hc Hl) as [parts [Hd [Hne Hall]]].
    cbn [compile pp] in *. rewrite Hd in *. cbn [flatP] in Ht. subst t. split.
    + destruct parts as [|p parts]; [congruence|]. cbn [forallb] in Hall. apply andb_true_iff in Hall. destruct Hall as [Hp _].
      destruct parts as [|q parts]; [cbn [join_dot]; rewrite <- (app_nil_r p); apply ident_start; exact Hp|].
      change (join_dot (p :: q :: parts)) with (p ++ [46] ++ join_dot (q :: parts)). apply ident_start. exact Hp.
    + intros rest tsr Hf H. apply Lx_dotted; [exact Hne|exact Hall|apply fol_wfol; exact Hf|exact H].
  - (* unary *)
    apply PD_plain; [reflexivity|]. intros Hl Hok pc t Ht. cbn [lexable ok] in *. apply andb_true_iff in Hok.
    pose proof (G_of_PD e IHe Hl (proj1 Hok) (proj2 Hok)) as Gx.
    cbn [compile pp] in *. refine (delim_lx _ _ _ t _ Ht).
    intros w Hw. rewrite flatP_CSeq in Hw. cbn [seqP] in Hw. destruct Hw as [a [w2 [-> [Fa [b [w3 [-> [Fb ->]]]]]]]].
    unfold out in Fa. cbn [flatP] in Fa. subst a. rewrite app_nil_r.
    destruct (Gx (PUnary u) b Fb) as [Sb Lb].
    split; [apply uop_start|]. intros rest tsr Hf H. rewrite <- app_assoc. cbn [app].
    apply Lx_uop; [apply startb_opnext; apply startb_app; exact Sb|]. apply Lb; assumption.
  - (* binary *)
    apply PD_plain; [reflexivity|]. intros Hl Hok pc t Ht. cbn [lexable ok] in *.
    apply andb_true_iff in Hl. destruct Hl as [Hl1 Hl2]. apply andb_true_iff in Hok. destruct Hok as [Ho1 Ho2].
    apply andb_true_iff in Ho1. apply andb_true_iff in Ho2.
    pose proof (G_of_PD e1 IHe1 Hl1 (proj1 Ho1) (proj2 Ho1)) as Gl.
    pose proof (G_of_PD e2 IHe2 Hl2 (proj1 Ho2) (proj2 Ho2)) as Gr.
    cbn [compile pp] in *. refine (delim_lx _ _ _ t _ Ht).
    intros w Hw. rewrite flatP_CSeq in Hw. cbn [seqP] in Hw.
    destruct Hw as [wl [w2 [-> [Fl [a [w3 [-> [Fa [wr [w4 [-> [Fr ->]]]]]]]]]]]].
    unfold out in Fa. cbn [flatP] in Fa. subst a. rewrite app_nil_r.
    destruct (Gl (PBinL b) wl Fl) as [Sl Ll]. destruct (Gr (PBinR b) wr Fr) as [Sr Lr].
    split; [apply startb_app; exact Sl|]. intros rest tsr Hf H. rewrite <- !app_assoc. rewrite <- app_comm_cons.
    apply Ll; [apply fol_bop|]. apply Lx_bop; [apply startb_opnext; apply startb_app; exact Sr|]. apply Lr; assumption.
  - (* boolean *)
    apply PD_plain; [reflexivity|]. intros Hl Hok pc t Ht. cbn [lexable ok] in *.
    apply andb_true_iff in Hok. destruct Hok as [Hlen Hall]. apply Nat.leb_le in Hlen.
    cbn [compile pp] in *. refine (delim_lx _ _ _ t _ Ht).
    intros w Hw. rewrite flatP_CSeq in Hw. apply (chain_lx o es); [|destruct es; [cbn in Hlen; lia|discriminate]|exact Hw].
    clear - H Hl Hall. induction es as [|x es IHes]; constructor.
    + inversion H; subst. cbn [forallb] in *. apply andb_true_iff in Hl. apply andb_true_iff in Hall.
      destruct Hall as [Hx _]. apply andb_true_iff in Hx. intros t Ht. apply (G_of_PD x); tauto.
    + inversion H; subst. cbn [forallb] in *. apply andb_true_iff in Hl. apply andb_true_iff in Hall. apply IHes; tauto.
  - (* tuple *)
    apply PD_plain; [reflexivity|]. intros Hl Hok pc t Ht. cbn [lexable ok] in *.
    apply andb_true_iff in Hok. destruct Hok as [_ Hok].
    pose proof (Forall_ElD es H Hl Hok) as HE.
    cbn [compile] in Ht. rewrite flatP_CMulti in Ht. apply iter_cmd_flat in Ht. destruct Ht as [wi [-> Fi]].
    split; [reflexivity|]. intros rest tsr Hf Hr. cbn [pp]. unfold T_LP, T_RP. rewrite <- !app_assoc. cbn [app].
    apply Lx_lp. rewrite <- ?app_assoc. cbn [app]. rewrite <- gtoks_true.
    apply (iter_lx (compile (POther None)) (pp (POther None)) es HE true wi Fi); [reflexivity|]. apply Lx_rp. exact Hr.
  - (* list *)
    apply PD_plain; [reflexivity|]. intros Hl Hok pc t Ht. cbn [lexable ok] in *.
    pose proof (Forall_ElD es H Hl Hok) as HE.
    cbn [compile] in Ht. rewrite flatP_CMulti in Ht. apply iter_cmd_flat in Ht. destruct Ht as [wi [-> Fi]].
    split; [reflexivity|]. intros rest tsr Hf Hr. cbn [pp]. unfold T_LB, T_RB. rewrite <- !app_assoc. cbn [app].
    apply Lx_lb. rewrite <- ?app_assoc. cbn [app]. rewrite <- gtoks_true.
    apply (iter_lx (compile (POther None)) (pp (POther None)) es HE true wi Fi); [reflexivity|]. apply Lx_rb. exact Hr.
  - (* set *)
    apply PD_plain; [reflexivity|]. intros Hl Hok pc t Ht. cbn [lexable ok] in *.
    pose proof (Forall_ElD es H Hl Hok) as HE.
    cbn [compile] in Ht. rewrite flatP_CMulti in Ht. apply iter_cmd_flat in Ht. destruct Ht as [wi [-> Fi]].
    split; [reflexivity|]. intros rest tsr Hf Hr. cbn [pp]. unfold T_SETOPEN, T_SETCLOSE. rewrite <- !app_assoc.
    change ([115; 101; 116; 40; 91] ++ wi ++ [93; 41] ++ rest) with (T_set ++ 40 :: 91 :: wi ++ 93 :: 41 :: rest).
    cbn [app]. apply Lx_name; [reflexivity|reflexivity|]. apply Lx_lp. apply Lx_lb. rewrite <- ?app_assoc. cbn [app]. rewrite <- gtoks_true.
    apply (iter_lx (compile (POther None)) (pp (POther None)) es HE true wi Fi); [reflexivity|].
    apply Lx_rb. apply Lx_rp. exact Hr.
  - (* dict *)
    apply PD_plain; [reflexivity|]. intros Hl Hok pc t Ht. cbn [lexable ok] in *.
    rewrite compile_dict in Ht. cbn [flatP] in Ht.
    destruct Ht as [a [w2 [-> [Fa [wi [w3 [-> [Fi [c [w4 [-> [Fc ->]]]]]]]]]]]].
    unfold out in Fa, Fc. cbn [flatP] in Fa, Fc. subst a c. change (seqP (iter_body true (map itemcmd items)) wi) in Fi. rewrite app_nil_r.
    split; [reflexivity|]. intros rest tsr Hf Hr. rewrite pp_dict. rewrite <- !app_assoc. cbn [app].
    apply Lx_lc. rewrite <- ?app_assoc. cbn [app]. rewrite <- gtoks_true.
    apply (iter_lx itemcmd itemtoks items); [|exact Fi|reflexivity|apply Lx_rc; exact Hr].
    clear - H Hl Hok. induction items as [|[k v] items IHi]; constructor.
    + inversion H as [|? ? [Hk Hv] _]; subst. cbn [forallb fst snd] in *.
      apply andb_true_iff in Hl. destruct Hl as [Hl _]. apply andb_true_iff in Hok. destruct Hok as [Hok _].
      apply andb_true_iff in Hl. destruct Hl as [Hlk Hlv]. apply andb_true_iff in Hok. destruct Hok as [Hok Hov].
      apply andb_true_iff in Hov. destruct Hov as [Hov1 Hov2].
      pose proof (G_of_PD v Hv Hlv Hov1 Hov2) as Gv.
      intros t Ht. unfold itemcmd, itemtoks in *. cbn [fst snd] in *. destruct k as [k|].
      * apply andb_true_iff in Hok. destruct Hok as [Hok1 Hok2].
        pose proof (G_of_PD k Hk Hlk Hok1 Hok2) as Gk.
        rewrite flatP_CSeq in Ht. cbn [seqP] in Ht.
        destruct Ht as [wk [w2 [-> [Fk [a [w3 [-> [Fa [wv [w4 [-> [Fv ->]]]]]]]]]]]].
        unfold out in Fa. cbn [flatP] in Fa. subst a. rewrite app_nil_r.
        destruct (Gk (POther None) wk Fk) as [_ Lk]. destruct (Gv (POther (Some prec_comma)) wv Fv) as [_ Lv].
        intros rest tsr Hf Hr. rewrite <- !app_assoc. rewrite <- app_comm_cons. cbn [app].
        apply Lk; [reflexivity|]. apply Lx_char; [reflexivity|apply scan_colon; reflexivity|].
        apply Lx_ws; [reflexivity|]. apply Lv; assumption.
      * rewrite flatP_CSeq in Ht. cbn [seqP] in Ht. destruct Ht as [a [w2 [-> [Fa [wv [w4 [-> [Fv ->]]]]]]]].
        unfold out in Fa. cbn [flatP] in Fa. subst a. rewrite app_nil_r.
        destruct (Gv (POther None) wv Fv) as [Sv Lv].
        intros rest tsr Hf Hr. rewrite <- app_assoc. cbn [app].
        apply (Lx_op ODStar (wv ++ rest)); [apply startb_opnext; apply startb_app; exact Sv|]. apply Lv; assumption.
    + inversion H; subst. cbn [forallb] in *. apply andb_true_iff in Hl. apply andb_true_iff in Hok. apply IHi; tauto.
  - (* subscript *)
    apply PD_plain; [reflexivity|]. intros Hl Hok pc t Ht. cbn [lexable ok] in *.
    apply andb_true_iff in Hl. destruct Hl as [Hlv Hls]. apply andb_true_iff in Hok. destruct Hok as [Hov Hos].
    apply andb_true_iff in Hov. destruct Hov as [Hov1 Hov2].
    pose proof (G_of_PD e1 IHe1 Hlv Hov1 Hov2) as Gv.
    assert (Hplain : ElD e2 ->
                     compile pc (ESub e1 e2) = CSeq [compile (POther None) e1; out T_LB; CSeq [CWbr; compile (POther None) e2]; out T_RB] ->
                     pp pc (ESub e1 e2) = pp (POther None) e1 ++ TLB :: pp (POther None) e2 ++ [TRB] ->
                     startb t = true /\ LxP t (pp pc (ESub e1 e2))).
    { intros El Ec Ep. rewrite Ec in Ht. rewrite Ep. rewrite flatP_CSeq in Ht. cbn [seqP] in Ht.
      destruct Ht as [wv [w2 [-> [Fv [a [w3 [-> [Fa [ws [w4 [-> [Fs [c [w5 [-> [Fc ->]]]]]]]]]]]]]]]].
      unfold out in Fa, Fc. cbn [flatP] in Fa, Fc. subst a c. rewrite flatP_CSeq in Fs. cbn [seqP] in Fs.
      destruct Fs as [x [w6 [-> [Fx [wsl [w7 [-> [Fsl ->]]]]]]]]. cbn [flatP] in Fx. subst x. rewrite !app_nil_r. cbn [app].
      destruct (Gv (POther None) wv Fv) as [Sv Lv].
      split; [apply startb_app; exact Sv|]. intros rest tsr Hf Hr. unfold T_LB, T_RB. rewrite <- !app_assoc. cbn [app].
      apply Lv; [reflexivity|]. apply Lx_lb. rewrite <- ?app_assoc. cbn [app]. apply (El wsl Fsl); [reflexivity|]. apply Lx_rb. exact Hr. }
    destruct e2; try (apply andb_true_iff in Hos; destruct Hos as [Hos1 Hos2];
                      apply Hplain; [apply (El_of_PD _ IHe2 Hls Hos1)|reflexivity|reflexivity]).
    cbn [sub_elts] in H. destruct es as [|x xs].
    + apply Hplain; [|reflexivity|reflexivity]. intros t0 Ht0. apply (G_of_PD _ IHe2 Hls eq_refl eq_refl (POther None) t0 Ht0).
    + cbn [lexable] in Hls. pose proof (Forall_ElD (x :: xs) H Hls Hos) as HE.
      cbn [compile] in Ht. rewrite flatP_CSeq in Ht. cbn [seqP] in Ht.
      destruct Ht as [wv [w2 [-> [Fv [a [w3 [-> [Fa [ws [w4 [-> [Fs [c [w5 [-> [Fc ->]]]]]]]]]]]]]]]].
      unfold out in Fa, Fc. cbn [flatP] in Fa, Fc. subst a c. rewrite flatP_CMulti in Fs. apply iter_cmd_flat in Fs. destruct Fs as [wi [-> Fi]].
      rewrite !app_nil_r. cbn [app].
      destruct (Gv (POther None) wv Fv) as [Sv Lv].
      split; [apply startb_app; exact Sv|]. intros rest tsr Hf Hr. cbn [pp]. unfold T_LB, T_RB. rewrite <- !app_assoc. cbn [app].
      apply Lv; [reflexivity|]. apply Lx_lb. rewrite <- ?app_assoc. cbn [app]. rewrite <- gtoks_true. rewrite <- ?app_assoc.
      destruct xs as [|y ys].
      * cbn [app]. apply (iter_lx (compile (POther None)) (pp (POther None)) [x] HE true wi Fi); [reflexivity|].
        apply Lx_comma. apply Lx_rb. exact Hr.
      * cbn [app]. apply (iter_lx (compile (POther None)) (pp (POther None)) (x :: y :: ys) HE true wi Fi); [reflexivity|].
        apply Lx_rb. exact Hr.
  - (* call *)
    apply PD_plain; [reflexivity|]. intros Hl Hok pc t Ht. cbn [lexable ok] in *.
    apply andb_true_iff in Hl. destruct Hl as [Hl Hlk]. apply andb_true_iff in Hl. destruct Hl as [Hlf Hla].
    apply andb_true_iff in Hok. destruct Hok as [Hok Hokk]. apply andb_true_iff in Hok. destruct Hok as [Hof Hoa].
    apply andb_true_iff in Hof. destruct Hof as [Hof1 Hof2].
    pose proof (G_of_PD e IHe Hlf Hof1 Hof2) as Gf.
    pose proof (Forall_ElD args H Hla Hoa) as HA.
    assert (HK : Forall (fun kw => forall t, flatP (kwcmd kw) t -> LxP t (kwtoks kw)) kws).
    { clear - H0 Hlk Hokk. induction kws as [|[k v] kws IHk]; constructor.
      - inversion H0 as [|? ? Hv _]; subst. cbn [forallb fst snd] in *.
        apply andb_true_iff in Hlk. destruct Hlk as [Hlk _]. apply andb_true_iff in Hokk. destruct Hokk as [Hokk _].
        apply andb_true_iff in Hlk. destruct Hlk as [Hn Hlv]. apply andb_true_iff in Hokk. destruct Hokk as [Hov1 Hov2].
        pose proof (G_of_PD v Hv Hlv Hov1 Hov2) as Gv.
        intros t Ht. unfold kwcmd, kwtoks in *. cbn [fst snd] in *. destruct k as [name|].
        + rewrite flatP_CSeq in Ht. cbn [seqP] in Ht.
          destruct Ht as [a [w2 [-> [Fa [b [w3 [-> [Fb [wv [w4 [-> [Fv ->]]]]]]]]]]]].
          unfold out in Fa, Fb. cbn [flatP] in Fa, Fb. subst a b. rewrite app_nil_r.
          destruct (Gv (POther None) wv Fv) as [Sv Lv].
          intros rest tsr Hf Hr. rewrite <- !app_assoc. cbn [app].
          apply Lx_name; [exact Hn|reflexivity|].
          apply Lx_char; [reflexivity| |apply Lv; assumption].
          apply scan_eq. pose proof (startb_opnext _ (startb_app wv rest Sv)) as Ho.
          apply opnext_facts in Ho. tauto.
        + rewrite flatP_CSeq in Ht. cbn [seqP] in Ht. destruct Ht as [a [w2 [-> [Fa [wv [w4 [-> [Fv ->]]]]]]]].
          unfold out in Fa. cbn [flatP] in Fa. subst a. rewrite app_nil_r.
          destruct (Gv (POther None) wv Fv) as [Sv Lv].
          intros rest tsr Hf Hr. rewrite <- app_assoc. cbn [app].
          apply (Lx_op ODStar (wv ++ rest)); [apply startb_opnext; apply startb_app; exact Sv|]. apply Lv; assumption.
      - inversion H0; subst. cbn [forallb] in *. apply andb_true_iff in Hlk. apply andb_true_iff in Hokk. apply IHk; tauto. }
    rewrite compile_call in Ht. rewrite flatP_CSeq in Ht. cbn [seqP] in Ht.
    destruct Ht as [wf [w2 [-> [Ff [a [w3 [-> [Fa [wm [w4 [-> [Fm [c [w5 [-> [Fc ->]]]]]]]]]]]]]]]].
    unfold out in Fa, Fc. cbn [flatP] in Fa, Fc. subst a c. rewrite flatP_CIndent, flatP_CSeq in Fm. rewrite app_nil_r.
    destruct (Gf (POther None) wf Ff) as [Sf Lf].
    split; [apply startb_app; exact Sf|]. intros rest tsr Hf Hr. rewrite pp_call. unfold T_LP, T_RP.
    rewrite <- !app_assoc. cbn [app]. apply Lf; [reflexivity|]. apply Lx_lp.
    (* the arguments *)
    apply seqP_app in Fm. destruct Fm as [wa [wk [-> [Fargs Fk]]]].
    apply seqP_one in Fargs. rewrite flatP_CMulti in Fargs. apply iter_cmd_flat in Fargs. destruct Fargs as [wi [-> Fi]].
    cbn [app]. rewrite app_nil_r.
    pose proof (iter_lx (compile (POther None)) (pp (POther None)) args HA true wi Fi) as LA. rewrite gtoks_true in LA.
    rewrite commas_app.
    destruct kws as [|kw kws].
    + cbn [seqP] in Fk. subst wk. rewrite app_nil_r. cbn [map].
      assert (Hc : match map (pp (POther None)) args with [] => commas [] | _ :: _ => commas (map (pp (POther None)) args) end
                   = commas (map (pp (POther None)) args)) by (destruct (map (pp (POther None)) args); reflexivity).
      rewrite Hc. rewrite <- app_assoc. apply LA; [reflexivity|]. apply Lx_rp. exact Hr.
    + pose proof (fun w F => iter_lx kwcmd kwtoks (kw :: kws) HK true w F) as LK.
      destruct args as [|x args].
      * cbn [app] in Fk. apply seqP_one in Fk. rewrite flatP_CMulti in Fk. apply iter_cmd_flat in Fk. destruct Fk as [wki [-> Fki]].
        cbn [iter_body seqP map] in Fi. subst wi. cbn [app map]. rewrite app_nil_r.
        specialize (LK wki Fki). rewrite gtoks_true in LK. rewrite <- app_assoc. apply LK; [reflexivity|]. apply Lx_rp. exact Hr.
      * cbn [app seqP] in Fk. destruct Fk as [wc [wk2 [-> [Fcm Fk]]]]. cbn [flatP] in Fcm.
        apply seqP_one in Fk. rewrite flatP_CMulti in Fk. apply iter_cmd_flat in Fk. destruct Fk as [wki [-> Fki]].
        cbn [app]. rewrite app_nil_r.
        specialize (LK wki Fki). rewrite gtoks_true in LK.
        change (map (pp (POther None)) (x :: args)) with (pp (POther None) x :: map (pp (POther None)) args) in *.
        change (map kwtoks (kw :: kws)) with (kwtoks kw :: map kwtoks kws) in *.
        cbn iota. rewrite <- !app_assoc. rewrite <- app_comm_cons.
        apply LA; [rewrite <- ?app_assoc; apply comma_layout_fol; exact Fcm|].
        apply Lx_comma_layout; [exact Fcm|]. apply LK; [reflexivity|]. apply Lx_rp. exact Hr.
  - (* starred *)
    intros Hl Hok. split; [discriminate|]. intros y Hy. inversion Hy; subst y.
    cbn [lexable] in Hl. destruct (ok_starred e Hok) as [H1 H2]. apply G_of_PD; assumption.
Qed.

(* ------------------------------------------------------------------ every tree of output calls built by compile is plain *)
Lemma plain_iter_body items : forall first, forallb plain_cmd items = true -> forallb plain_cmd (iter_body first items) = true.
Proof.
  induction items as [|c items IH]; intros first H; [reflexivity|].
  cbn [forallb] in H. apply andb_true_iff in H. destruct H as [H1 H2].
  cbn [iter_body]. rewrite forallb_app. apply andb_true_iff. split; [destruct first; reflexivity|].
  cbn [app forallb plain_cmd]. rewrite H1. cbn [andb]. apply IH. exact H2.
Qed.

Lemma plain_iter_cmd pre suf items : forallb plain_cmd items = true -> plain_cmd (iter_cmd pre suf items) = true.
Proof.
  intros H. unfold iter_cmd. cbn [plain_cmd]. rewrite !forallb_app. cbn [forallb plain_cmd].
  rewrite (plain_iter_body items true H). destruct pre; destruct suf; reflexivity.
Qed.

Lemma plain_intersperse sep l : plain_cmd sep = true -> forallb plain_cmd l = true -> forallb plain_cmd (intersperse sep l) = true.
Proof.
  intros Hs. induction l as [|c l IH]; intros H; [reflexivity|].
  cbn [forallb] in H. apply andb_true_iff in H. destruct H as [H1 H2].
  destruct l as [|c2 l]; cbn [intersperse forallb]; [rewrite H1; reflexivity|].
  rewrite H1, Hs. cbn [andb]. apply IH. exact H2.
Qed.

Lemma forallb_map_plain (f : expr -> cmd) es :
  Forall (fun x => plain_cmd (f x) = true) es -> forallb plain_cmd (map f es) = true.
Proof. induction es as [|x es IH]; intros HF; [reflexivity|]. inversion HF; subst. cbn. rewrite H1. apply IH. assumption. Qed.

Lemma compile_plain e : forall pc, plain_cmd (compile pc e) = true.
Proof.
  induction e using expr_ind2; intros pc.
  - destruct l as [c|t]; [destruct c|]; reflexivity.
  - reflexivity.
  - cbn [compile]. destruct (dotted (EAttr e a g)); reflexivity.
  - cbn [compile plain_cmd forallb]. rewrite IHe. reflexivity.
  - cbn [compile plain_cmd forallb]. rewrite IHe1, IHe2. reflexivity.
  - cbn [compile plain_cmd]. apply plain_intersperse; [reflexivity|]. apply forallb_map_plain.
    eapply Forall_impl; [|exact H]. intros x Hx. apply Hx.
  - cbn [compile plain_cmd]. apply plain_iter_cmd. apply forallb_map_plain. eapply Forall_impl; [|exact H]. intros x Hx. apply Hx.
  - cbn [compile plain_cmd]. apply plain_iter_cmd. apply forallb_map_plain. eapply Forall_impl; [|exact H]. intros x Hx. apply Hx.
  - cbn [compile plain_cmd]. apply plain_iter_cmd. apply forallb_map_plain. eapply Forall_impl; [|exact H]. intros x Hx. apply Hx.
  - rewrite compile_dict. unfold out. cbn [plain_cmd forallb plain_kind andb]. rewrite andb_true_r. apply plain_iter_body.
    induction items as [|[k v] items IHi]; [reflexivity|].
    inversion H as [|? ? [Hk Hv] HF]; subst. cbn [map forallb]. apply andb_true_iff. split; [|apply IHi; assumption].
    unfold itemcmd, out. cbn [fst snd] in *. destruct k as [k|]; cbn [plain_cmd forallb plain_kind andb]; rewrite ?Hk, ?Hv; reflexivity.
  - cbn [compile]. unfold out. cbn [plain_cmd forallb plain_kind]. rewrite IHe1. cbn [andb]. rewrite andb_true_r.
    destruct e2; try (cbn [plain_cmd forallb]; rewrite IHe2; reflexivity).
    destruct es as [|x xs]; [cbn [plain_cmd forallb]; rewrite IHe2; reflexivity|].
    cbn [plain_cmd sub_elts] in *. apply plain_iter_cmd. apply forallb_map_plain.
    eapply Forall_impl; [|exact H]. intros y Hy. apply Hy.
  - rewrite compile_call. unfold out. cbn [plain_cmd forallb plain_kind]. rewrite IHe. cbn [andb]. rewrite andb_true_r.
    rewrite forallb_app. apply andb_true_iff. split.
    + cbn [forallb plain_cmd]. rewrite andb_true_r. apply plain_iter_cmd. apply forallb_map_plain.
      eapply Forall_impl; [|exact H]. intros y Hy. apply Hy.
    + destruct kws as [|kw kws]; [reflexivity|]. rewrite forallb_app. apply andb_true_iff. split; [destruct args; reflexivity|].
      cbn [forallb plain_cmd]. rewrite andb_true_r. apply plain_iter_cmd.
      clear - H0. revert H0. generalize (kw :: kws) as l. intros l HF.
      induction l as [|[k v] l IHl]; [reflexivity|]. inversion HF as [|? ? Hv HF']; subst. cbn [snd] in Hv.
      cbn [map forallb]. apply andb_true_iff. split; [|apply IHl; assumption].
      unfold kwcmd, out. cbn [fst snd]. destruct k; cbn [plain_cmd forallb plain_kind andb]; rewrite Hv; reflexivity.
  - cbn [compile plain_cmd forallb]. rewrite IHe. reflexivity.
Qed.

(* ------------------------------------------------------------------ the displayed text, read as Python *)
Theorem layout_tokens e pc t :
  lexable e = true -> wf_source e = true -> is_starred e = false -> no_one_tuple e = true ->
  flatP (compile pc e) t -> tokenize t = Some (pp pc e).
Proof.
  intros Hl Hw Hs Hn Ht. pose proof (ok_of_guards e Hw Hn) as Hok.
  assert (Hns : nst e = true) by (unfold nst; rewrite Hs; reflexivity).
  destruct (G_of_PD e (display_all e) Hl Hok Hns pc t Ht) as [_ HL].
  apply Lx_tokenize. specialize (HL [] [] eq_refl Lx_nil). rewrite !app_nil_r in HL. exact HL.
Qed.

Theorem layout_parses e pc t :
  good_pc pc -> lexable e = true -> wf_source e = true -> is_starred e = false -> no_one_tuple e = true ->
  flatP (compile pc e) t -> parse_text t = Some (norm e).
Proof.
  intros Hg Hl Hw Hs Hn Ht. unfold parse_text. rewrite (layout_tokens e pc t Hl Hw Hs Hn Ht).
  apply read_print; assumption.
Qed.

(* the text of colorize_inline_pyval / of any run without limits *)
Definition display (pc : pctx) (e : expr) : text := flat (compile pc e).

Theorem display_parses e pc :
  good_pc pc -> lexable e = true -> wf_source e = true -> is_starred e = false -> no_one_tuple e = true ->
  parse_text (display pc e) = Some (norm e).
Proof. intros. apply (layout_parses e pc); try assumption. apply flat_flatP. Qed.

(* any setting: whenever colorize says is_complete, the shown text with the LINEWRAP markers and the newlines after
   them removed parses to the tree *)
Theorem wrapped_display_parses e pc p :
  good_pc pc -> lexable e = true -> wf_source e = true -> is_starred e = false -> no_one_tuple e = true ->
  c_complete (colorize p (compile pc e)) = true ->
  parse_text (unwrap (c_nodes (colorize p (compile pc e)))) = Some (norm e).
Proof.
  intros Hg Hl Hw Hs Hn Hc. apply (layout_parses e pc); try assumption.
  apply complete_layout; [apply compile_plain|exact Hc].
Qed.
