(* Proofs/ExtractProofs.v -- extract_fields (Model/ExtractFields.v) against Spec/Extract.v. *)
From Coq Require Import ZArith NArith List Bool Arith Lia.
From PydoctorVerif Require Import Base.Sexp Model.FieldTypes Gen.TablesC09 Model.Fields Model.ExtractFields Spec.Extract
     Proofs.FieldsCount.
Import ListNotations.

Lemma ls_cons : forall x l, list_sum (x :: l) = x + list_sum l.
Proof. reflexivity. Qed.

Lemma annotate_occ : forall tag k i a, attr_occ i (annotate tag k a) <= attr_occ i a + (if Nat.eqb i k then 1 else 0).
Proof.
  intros tag k i a. unfold annotate, attr_occ. destruct (text_eqb tag extract_type_tag); cbn [xa_doc xa_type slot_occ];
    destruct (Nat.eqb_spec k i); destruct (Nat.eqb_spec i k); try lia; subst; try contradiction; lia.
Qed.

Lemma annotate_name : forall tag k a, xa_name (annotate tag k a) = xa_name a.
Proof. intros. unfold annotate. destruct (text_eqb tag extract_type_tag); reflexivity. Qed.

Lemma upsert_occ : forall tag k n i attrs,
  attrs_occ i (upsert n (annotate tag k) attrs) <= attrs_occ i attrs + (if Nat.eqb i k then 1 else 0).
Proof.
  intros tag k n i attrs. induction attrs as [|a attrs IH]; cbn [upsert].
  - unfold attrs_occ. cbn [map]. rewrite !ls_cons. pose proof (annotate_occ tag k i {| xa_name := n; xa_doc := None; xa_type := None; xa_kind := None; xa_created := true |}) as H.
    unfold attr_occ at 2 in H. cbn in H. cbn [list_sum map fold_right]. lia.
  - destruct (text_eqb (xa_name a) n); unfold attrs_occ in *; cbn [map]; rewrite !ls_cons.
    + pose proof (annotate_occ tag k i a). lia.
    + lia.
Qed.

Lemma upsert_has : forall n f attrs, (forall a, xa_name (f a) = xa_name a) ->
  exists a0, In (f a0) (upsert n f attrs) /\ xa_name a0 = n.
Proof.
  intros n f attrs Hf. induction attrs as [|a attrs IH]; cbn [upsert].
  - eexists. split; [left; reflexivity | reflexivity].
  - destruct (text_eqb (xa_name a) n) eqn:E.
    + exists a. split; [left; reflexivity | apply text_eqb_eq; exact E].
    + destruct IH as (a0 & H1 & H2). exists a0. split; [right; exact H1 | exact H2].
Qed.

Lemma upsert_keeps : forall n f attrs a, In a attrs -> In a (upsert n f attrs) \/ (xa_name a = n /\ In (f a) (upsert n f attrs)).
Proof.
  intros n f attrs a. induction attrs as [|b attrs IH]; intro H; [contradiction|]. cbn [upsert].
  destruct (text_eqb (xa_name b) n) eqn:E.
  - destruct H as [-> | H]; [right; split; [apply text_eqb_eq; exact E | left; reflexivity] | left; right; exact H].
  - destruct H as [-> | H]; [left; left; reflexivity|].
    destruct (IH H) as [H1 | [H1 H2]]; [left; right; exact H1 | right; split; [exact H1 | right; exact H2]].
Qed.

Definition slot_of_field (f : field) (a : xattr) : option nat := if is_type_field f then xa_type a else xa_doc a.

Definition xplaced (i : nat) (f : field) (name : text) (attrs : list xattr) : Prop :=
  exists a, In a attrs /\ xa_name a = name /\ slot_of_field f a = Some i.

Lemma xstep_occ : forall k g st i,
  attrs_occ i (fst (xstep k g st)) <= attrs_occ i (fst st) + (if Nat.eqb i k then 1 else 0).
Proof.
  intros k g [attrs reps] i. unfold xstep. destruct (is_extract_tag (f_tag g)); [|cbn [fst]; lia].
  destruct (f_arg g); cbn [fst]; [apply upsert_occ | lia].
Qed.

Lemma xstep_reports : forall k g st i, In i (snd st) -> In i (snd (xstep k g st)).
Proof.
  intros k g [attrs reps] i H. unfold xstep. destruct (is_extract_tag (f_tag g)); [|exact H].
  destruct (f_arg g); cbn [snd] in *; [exact H | apply in_or_app; left; exact H].
Qed.

Lemma xstep_places : forall k g st, is_extract_tag (f_tag g) = true ->
  match f_arg g with
  | None => In k (snd (xstep k g st))
  | Some name => xplaced k g name (fst (xstep k g st))
  end.
Proof.
  intros k g [attrs reps] Ht. unfold xstep. rewrite Ht. destruct (f_arg g) as [name|]; cbn [fst snd].
  - destruct (upsert_has name (annotate (f_tag g) k) attrs (annotate_name _ _)) as (a0 & H1 & H2).
    exists (annotate (f_tag g) k a0). split; [exact H1|]. split; [rewrite annotate_name; exact H2|].
    unfold slot_of_field, is_type_field, annotate. destruct (text_eqb (f_tag g) extract_type_tag); reflexivity.
  - apply in_or_app. right. left. reflexivity.
Qed.

Lemma xstep_keeps : forall k g st i f name,
  f_arg f = Some name -> same_target f g = false -> xplaced i f name (fst st) -> xplaced i f name (fst (xstep k g st)).
Proof.
  intros k g [attrs reps] i f name Hf Hst (a & H1 & H2 & H3). unfold xstep.
  destruct (is_extract_tag (f_tag g)) eqn:Ht; [|exists a; auto].
  destruct (f_arg g) as [n|] eqn:Hg; cbn [fst]; [|exists a; auto].
  destruct (upsert_keeps n (annotate (f_tag g) k) attrs a H1) as [H | [Hn H]]; [exists a; auto|].
  exists (annotate (f_tag g) k a). split; [exact H|]. split; [rewrite annotate_name; exact H2|].
  unfold same_target in Hst. rewrite Ht, Hf, Hg in Hst. cbn [andb] in Hst.
  assert (Hsame : text_eqb name n = true) by (apply text_eqb_eq; congruence).
  rewrite Hsame, andb_true_r in Hst.
  unfold slot_of_field in *. unfold annotate. fold (is_type_field g).
  destruct (is_type_field f), (is_type_field g); cbn in Hst; try discriminate; cbn [xa_doc xa_type]; exact H3.
Qed.

Lemma xrun_occ : forall fs k st i,
  attrs_occ i (fst (xrun k fs st)) <= attrs_occ i (fst st) + (if (k <=? i) && (i <? k + length fs) then 1 else 0).
Proof.
  induction fs as [|g fs IH]; intros k st i; cbn [xrun length]; [lia|].
  specialize (IH (S k) (xstep k g st) i). pose proof (xstep_occ k g st i) as H.
  destruct (Nat.eqb_spec i k) as [->|Hne].
  - replace ((S k <=? k) && (k <? S k + length fs)) with false in IH by (symmetry; apply andb_false_iff; left; apply Nat.leb_gt; lia).
    replace ((k <=? k) && (k <? k + S (length fs))) with true by (symmetry; apply andb_true_iff; split; [apply Nat.leb_le | apply Nat.ltb_lt]; lia).
    lia.
  - replace ((k <=? i) && (i <? k + S (length fs))) with ((S k <=? i) && (i <? S k + length fs)); [lia|].
    destruct (S k <=? i) eqn:A; destruct (k <=? i) eqn:B; cbn [andb]; try reflexivity.
    + f_equal. lia.
    + apply Nat.leb_le in A. apply Nat.leb_gt in B. lia.
    + apply Nat.leb_gt in A. apply Nat.leb_le in B. assert (i = k) by lia. contradiction.
Qed.

Lemma xrun_reports : forall fs k st i, In i (snd st) -> In i (snd (xrun k fs st)).
Proof. induction fs as [|g fs IH]; intros k st i H; cbn [xrun]; [exact H | apply IH; apply xstep_reports; exact H]. Qed.

Lemma xrun_keeps : forall fs k st i f name,
  f_arg f = Some name -> existsb (same_target f) fs = false -> xplaced i f name (fst st) -> xplaced i f name (fst (xrun k fs st)).
Proof.
  induction fs as [|g fs IH]; intros k st i f name Hf He Hp; cbn [xrun]; [exact Hp|].
  cbn [existsb] in He. apply orb_false_iff in He. destruct He as [He1 He2].
  apply IH; [exact Hf | exact He2 | apply xstep_keeps; assumption].
Qed.

Lemma xrun_app : forall a b k st, xrun k (a ++ b) st = xrun (k + length a) b (xrun k a st).
Proof.
  induction a as [|x a IH]; intros b k st; cbn [app xrun length]; [rewrite Nat.add_0_r; reflexivity|].
  rewrite IH. f_equal. lia.
Qed.

Lemma occ_init : forall contents i, attrs_occ i (map existing_attr contents) = 0.
Proof. intros contents i. induction contents as [|c l IH]; [reflexivity|]. unfold attrs_occ in *. cbn [map]. rewrite ls_cons, IH. reflexivity. Qed.

Theorem extract_routed : forall contents fs i f,
  nth_error fs i = Some f -> is_extract_tag (f_tag f) = true -> xreplaced fs i f = false ->
  xrouted i f (fst (extract_fields contents fs)) (snd (extract_fields contents fs)).
Proof.
  intros contents fs i f Hnth Ht Hr. unfold extract_fields.
  destruct (nth_error_split fs i Hnth) as (pre & post & Hfs & Hlen).
  unfold xreplaced in Hr.
  assert (Hl : skipn (S i) fs = post).
  { subst fs i. replace (S (length pre)) with (length (pre ++ [f])) by (rewrite app_length; cbn; lia).
    replace (pre ++ f :: post) with ((pre ++ [f]) ++ post) by (rewrite <- app_assoc; reflexivity).
    rewrite skipn_app, skipn_all, Nat.sub_diag. reflexivity. }
  rewrite Hl in Hr.
  pose proof (xrun_occ fs 0 (map existing_attr contents, []) i) as Hocc. cbn [fst] in Hocc. rewrite occ_init in Hocc.
  rewrite Hfs in *. rewrite xrun_app. cbn [xrun plus]. rewrite Hlen.
  set (st0 := xrun 0 pre (map existing_attr contents, [])).
  pose proof (xstep_places i f st0 Ht) as Hp.
  unfold xrouted. destruct (f_arg f) as [name|] eqn:Hf.
  - unfold lands_on. assert (Hpl : xplaced i f name (fst (xrun (S i) post (xstep i f st0)))).
    { apply xrun_keeps; [exact Hf | exact Hr | exact Hp]. }
    split.
    + destruct Hpl as (a & H1 & H2 & H3). exists a. repeat split; assumption.
    + rewrite xrun_app in Hocc. cbn [xrun plus] in Hocc. rewrite Hlen in Hocc. fold st0 in Hocc.
      assert (1 <= attrs_occ i (fst (xrun (S i) post (xstep i f st0)))).
      { destruct Hpl as (a & H1 & H2 & H3). clear - H1 H3. induction (fst (xrun (S i) post (xstep i f st0))) as [|b l IH]; [contradiction|].
        unfold attrs_occ in *. cbn [map]. rewrite ls_cons. destruct H1 as [-> | H1]; [|specialize (IH H1); lia].
        unfold attr_occ, slot_of_field in *. destruct (is_type_field f); rewrite H3; cbn [slot_occ]; rewrite Nat.eqb_refl; lia. }
      match type of Hocc with context [if ?c then _ else _] => destruct c end; lia.
  - apply xrun_reports. exact Hp.
Qed.
