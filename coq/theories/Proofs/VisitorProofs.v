(* Proofs/VisitorProofs.v -- lemmas behind Props/C19.v *)
From Coq Require Import ZArith NArith List Bool Lia Permutation.
From PydoctorVerif Require Import Base.Sexp Model.Visitor Spec.Walk.
Import ListNotations.

(* ---- induction principle for rose trees ---- *)
Lemma tree_ind' (P : tree -> Prop) :
  (forall n kids, Forall P kids -> P (Node n kids)) -> forall t, P t.
Proof.
  intros H. fix IH 1. intros [n kids]. apply H.
  induction kids as [|k ks IHks]; constructor; [apply IH | exact IHks].
Qed.

Definition root (t : tree) : N := match t with Node n _ => n end.

Section WithConfig.
  Variable exts : list ext.
  Variable prune : N -> option action.

  (* the trace a traversed tree produces: entry block, children, exit block *)
  Fixpoint block_trace (t : tree) : list event :=
    match t with
    | Node n kids =>
      visit_ev exts n ++ flat_map block_trace kids ++ depart_ev exts n (negb (main_departs prune n))
    end.

  Fixpoint enter_trace (t : tree) : list event :=
    match t with Node n kids => visit_ev exts n ++ flat_map enter_trace kids end.

  (* the sibling loops of the specification, named *)
  Definition go_trav : list tree -> list tree :=
    fix go (ks : list tree) : list tree :=
      match ks with
      | [] => []
      | (Node m _ as k) :: ks' => traversed prune k :: (if skips_siblings prune m then [] else go ks')
      end.
  Definition go_trav_walk : list tree -> list tree :=
    fix go (ks : list tree) : list tree :=
      match ks with
      | [] => []
      | (Node m _ as k) :: ks' => traversed_walk prune k :: (if skips_siblings prune m then [] else go ks')
      end.

  Lemma traversed_eq n kids :
    traversed prune (Node n kids) = Node n (if skips_kids prune n then [] else go_trav kids).
  Proof. reflexivity. Qed.
  Lemma traversed_walk_eq n kids :
    traversed_walk prune (Node n kids) =
    Node n (if skips_kids prune n || skips_siblings prune n then [] else go_trav_walk kids).
  Proof. reflexivity. Qed.

  (* ---- L0: exception-driven control flow = traversal of the documented sub-tree ---- *)
  Lemma kids_loop_spec (f : tree -> list event * bool) (g : tree -> list event) (tr : tree -> tree) kids :
    Forall (fun k => f k = (g (tr k), skips_siblings prune (root k))) kids ->
    kids_loop f kids =
    flat_map g ((fix go (ks : list tree) : list tree :=
                   match ks with
                   | [] => []
                   | (Node m _ as k) :: ks' => tr k :: (if skips_siblings prune m then [] else go ks')
                   end) kids).
  Proof.
    induction kids as [|k ks IH]; intros HF; [reflexivity|].
    inversion HF as [|? ? Hk Hks]; subst.
    cbn [kids_loop]. rewrite Hk. destruct k as [m mk]. cbn [root].
    destruct (skips_siblings prune m) eqn:E.
    - cbn [flat_map]. rewrite app_nil_r. reflexivity.
    - cbn [flat_map]. f_equal. apply IH. exact Hks.
  Qed.

  Lemma walkabout_spec t :
    walkabout exts prune t = (block_trace (traversed prune t), skips_siblings prune (root t)).
  Proof.
    induction t as [n kids IH] using tree_ind'.
    rewrite traversed_eq. cbn [walkabout block_trace root].
    pose proof (kids_loop_spec (walkabout exts prune) block_trace (traversed prune) kids IH) as HK.
    fold go_trav in HK.
    unfold skips_kids, skips_siblings, main_departs in *.
    destruct (prune n) as [[| | |]|]; cbn [negb flat_map app]; rewrite ?HK; reflexivity.
  Qed.

  Lemma walk_spec t :
    walk exts prune t = (enter_trace (traversed_walk prune t), skips_siblings prune (root t)).
  Proof.
    induction t as [n kids IH] using tree_ind'.
    rewrite traversed_walk_eq. cbn [walk enter_trace root].
    pose proof (kids_loop_spec (walk exts prune) enter_trace (traversed_walk prune) kids IH) as HK.
    fold go_trav_walk in HK.
    unfold skips_kids, skips_siblings in *.
    destruct (prune n) as [[| | |]|]; cbn [orb flat_map app]; rewrite ?HK, ?app_nil_r; reflexivity.
  Qed.

  (* ---- counting participants ---- *)
  Definition cnt (p : N) (l : list N) : nat := count_occ N.eq_dec l p.

  Lemma cnt_app p l1 l2 : cnt p (l1 ++ l2) = cnt p l1 + cnt p l2.
  Proof. unfold cnt. apply count_occ_app. Qed.

  Lemma cnt_partition p :
    cnt p (before_ exts) + cnt p (after_ exts) + cnt p (inner_ exts) + cnt p (outter_ exts)
    = cnt p (map ext_id exts).
  Proof.
    unfold before_, after_, inner_, outter_, of_when, cnt.
    induction exts as [|e es IH]; [reflexivity|].
    cbn [filter map]. destruct e as [i w]. cbn [ext_when ext_id].
    destruct w; cbn [when_eqb map count_occ ext_id]; destruct (N.eq_dec i p); lia.
  Qed.

  Hypothesis ids_distinct : NoDup (main_id :: map ext_id exts).

  Lemma cnt_main_exts : cnt main_id (map ext_id exts) = 0.
  Proof.
    inversion ids_distinct as [|? ? Hn _]; subst.
    unfold cnt. apply count_occ_not_In. exact Hn.
  Qed.

  Lemma cnt_ext p : In p (map ext_id exts) -> cnt p (map ext_id exts) = 1 /\ p <> main_id.
  Proof.
    intros Hin. inversion ids_distinct as [|? ? Hn Hnd]; subst. split.
    - unfold cnt. apply NoDup_count_occ' with (decA := N.eq_dec) in Hin; assumption.
    - intros ->. contradiction.
  Qed.

  Lemma cnt_enter_order p :
    In p (main_id :: map ext_id exts) -> cnt p (enter_order exts) = 1.
  Proof.
    intros Hin. unfold enter_order. rewrite !cnt_app.
    pose proof (cnt_partition p) as HP.
    destruct Hin as [<-|Hin].
    - rewrite cnt_main_exts in HP. unfold cnt at 3. cbn [count_occ].
      destruct (N.eq_dec main_id main_id); [|congruence]. unfold cnt in *. lia.
    - destruct (cnt_ext p Hin) as [H1 Hne]. unfold cnt at 3. cbn [count_occ].
      destruct (N.eq_dec main_id p); [congruence|]. unfold cnt in *. lia.
  Qed.

  Lemma cnt_leave_order p :
    In p (main_id :: map ext_id exts) -> cnt p (leave_order exts) = 1.
  Proof.
    intros Hin. unfold leave_order. rewrite !cnt_app.
    pose proof (cnt_partition p) as HP.
    destruct Hin as [<-|Hin].
    - rewrite cnt_main_exts in HP. unfold cnt at 3. cbn [count_occ].
      destruct (N.eq_dec main_id main_id); [|congruence]. unfold cnt in *. lia.
    - destruct (cnt_ext p Hin) as [H1 Hne]. unfold cnt at 3. cbn [count_occ].
      destruct (N.eq_dec main_id p); [congruence|]. unfold cnt in *. lia.
  Qed.

  Lemma filter_who_map p d n l :
    filter (who_is p) (map (fun q => Ev q d n) l) = repeat (Ev p d n) (cnt p l).
  Proof.
    unfold cnt. induction l as [|q l IH]; [reflexivity|].
    cbn [map filter count_occ]. unfold who_is at 1. cbn [who].
    destruct (N.eq_dec q p) as [->|Hne].
    - rewrite N.eqb_refl. cbn [repeat]. f_equal. exact IH.
    - apply N.eqb_neq in Hne. rewrite Hne. exact IH.
  Qed.

  Lemma filter_who_visit p n :
    In p (main_id :: map ext_id exts) -> filter (who_is p) (visit_ev exts n) = [Ev p Enter n].
  Proof.
    intros Hin. unfold visit_ev. rewrite filter_who_map.
    change ((before_ exts ++ outter_ exts) ++ [main_id] ++ after_ exts ++ inner_ exts) with (enter_order exts).
    rewrite cnt_enter_order by exact Hin. reflexivity.
  Qed.

  Lemma cnt_depart p (eo : bool) :
    In p (main_id :: map ext_id exts) ->
    cnt p ((before_ exts ++ inner_ exts) ++ (if eo then [] else [main_id]) ++ (after_ exts ++ outter_ exts))
    = if (N.eqb p main_id && eo)%bool then 0 else 1.
  Proof.
    intros Hin. rewrite !cnt_app. pose proof (cnt_partition p) as HP.
    destruct Hin as [<-|Hin].
    - rewrite cnt_main_exts in HP. rewrite N.eqb_refl. cbn [andb].
      destruct eo; unfold cnt in *; cbn [count_occ].
      + lia.
      + destruct (N.eq_dec main_id main_id); [|congruence]. lia.
    - destruct (cnt_ext p Hin) as [H1 Hne].
      assert (Hb : N.eqb p main_id = false) by (apply N.eqb_neq; exact Hne). rewrite Hb. cbn [andb].
      destruct eo; unfold cnt in *; cbn [count_occ].
      + lia.
      + destruct (N.eq_dec main_id p); [congruence|]. lia.
  Qed.

  Lemma filter_who_depart p n :
    In p (main_id :: map ext_id exts) ->
    filter (who_is p) (depart_ev exts n (negb (main_departs prune n)))
    = if leaves_of prune p n then [Ev p Leave n] else [].
  Proof.
    intros Hin. unfold depart_ev. rewrite filter_who_map, cnt_depart by exact Hin.
    unfold leaves_of. destruct (N.eqb p main_id); cbn [andb].
    - destruct (main_departs prune n); reflexivity.
    - reflexivity.
  Qed.

  Lemma filter_flat_map {X} (f : event -> bool) (g : X -> list event) l :
    filter f (flat_map g l) = flat_map (fun x => filter f (g x)) l.
  Proof.
    induction l as [|x l IH]; [reflexivity|]. cbn [flat_map]. rewrite filter_app, IH. reflexivity.
  Qed.

  Lemma flat_map_ext_Forall {X Y} (f g : X -> list Y) l :
    Forall (fun x => f x = g x) l -> flat_map f l = flat_map g l.
  Proof.
    induction 1 as [|x l Hx _ IH]; [reflexivity|]. cbn [flat_map]. rewrite Hx, IH. reflexivity.
  Qed.

  (* ---- P1: what one participant sees ---- *)
  Lemma block_trace_projection p t :
    In p (main_id :: map ext_id exts) ->
    filter (who_is p) (block_trace t) = dfs p (leaves_of prune p) t.
  Proof.
    intros Hin. induction t as [n kids IH] using tree_ind'.
    cbn [block_trace dfs]. rewrite !filter_app, filter_who_visit, filter_who_depart by exact Hin.
    rewrite filter_flat_map. rewrite (flat_map_ext_Forall _ _ _ IH). reflexivity.
  Qed.

  Lemma enter_trace_projection p t :
    In p (main_id :: map ext_id exts) ->
    filter (who_is p) (enter_trace t) = map (fun n => Ev p Enter n) (preorder t).
  Proof.
    intros Hin. induction t as [n kids IH] using tree_ind'.
    cbn [enter_trace preorder]. rewrite filter_app, filter_who_visit by exact Hin.
    rewrite filter_flat_map. rewrite (flat_map_ext_Forall _ _ _ IH).
    cbn [app map]. f_equal.
    clear IH. induction kids as [|k ks IHk]; [reflexivity|].
    cbn [flat_map]. rewrite map_app, IHk. reflexivity.
  Qed.
End WithConfig.

(* ---- P2: global order of entries and exits (needs no distinctness hypothesis) ---- *)
Section Order.
  Variable exts : list ext.
  Variable prune : N -> option action.

  Lemma filter_enter_map_enter n l :
    filter is_enter (map (fun q => Ev q Enter n) l) = map (fun q => Ev q Enter n) l.
  Proof. induction l as [|q l IH]; [reflexivity|]. cbn. f_equal. exact IH. Qed.
  Lemma filter_enter_map_leave n l :
    filter is_enter (map (fun q => Ev q Leave n) l) = [].
  Proof. induction l as [|q l IH]; [reflexivity|]. cbn. exact IH. Qed.
  Lemma filter_leave_map_leave n l :
    filter is_leave (map (fun q => Ev q Leave n) l) = map (fun q => Ev q Leave n) l.
  Proof. induction l as [|q l IH]; [reflexivity|]. cbn. f_equal. exact IH. Qed.
  Lemma filter_leave_map_enter n l :
    filter is_leave (map (fun q => Ev q Enter n) l) = [].
  Proof. induction l as [|q l IH]; [reflexivity|]. cbn. exact IH. Qed.

  Definition entry_block (n : N) : list event := map (fun q => Ev q Enter n) (enter_order exts).
  Definition exit_block (n : N) : list event :=
    map (fun q => Ev q Leave n)
        (if main_departs prune n then leave_order exts
         else (before_ exts ++ inner_ exts) ++ (after_ exts ++ outter_ exts)).

  Lemma block_trace_enters t :
    filter is_enter (block_trace exts prune t) = flat_map entry_block (preorder t).
  Proof.
    induction t as [n kids IH] using tree_ind'.
    cbn [block_trace preorder flat_map]. rewrite !filter_app.
    unfold visit_ev, depart_ev. rewrite filter_enter_map_enter, filter_enter_map_leave, app_nil_r.
    unfold entry_block at 1, enter_order. f_equal.
    rewrite filter_flat_map. rewrite (flat_map_ext_Forall _ _ _ IH).
    clear IH. induction kids as [|k ks IHk]; [reflexivity|].
    cbn [flat_map]. rewrite flat_map_app, IHk. reflexivity.
  Qed.

  Lemma block_trace_leaves t :
    filter is_leave (block_trace exts prune t) = flat_map exit_block (postorder t).
  Proof.
    induction t as [n kids IH] using tree_ind'.
    cbn [block_trace postorder]. rewrite !filter_app.
    unfold visit_ev, depart_ev. rewrite filter_leave_map_enter, filter_leave_map_leave.
    cbn [app]. rewrite flat_map_app. cbn [flat_map]. rewrite app_nil_r.
    f_equal.
    - rewrite filter_flat_map. rewrite (flat_map_ext_Forall _ _ _ IH).
      clear IH. induction kids as [|k ks IHk]; [reflexivity|].
      cbn [flat_map]. rewrite flat_map_app, IHk. reflexivity.
    - unfold exit_block, leave_order. destruct (main_departs prune n); cbn [negb app]; reflexivity.
  Qed.

  Lemma enter_trace_all_enters t :
    enter_trace exts t = flat_map entry_block (preorder t).
  Proof.
    induction t as [n kids IH] using tree_ind'.
    cbn [enter_trace preorder flat_map]. unfold entry_block at 1, visit_ev, enter_order. f_equal.
    rewrite (flat_map_ext_Forall _ _ _ IH).
    clear IH. induction kids as [|k ks IHk]; [reflexivity|].
    cbn [flat_map]. rewrite flat_map_app, IHk. reflexivity.
  Qed.
End Order.

(* ---- main theorems, assembled ---- *)
Theorem walkabout_projection exts prune t p :
  NoDup (main_id :: map ext_id exts) -> In p (main_id :: map ext_id exts) ->
  filter (who_is p) (fst (walkabout exts prune t)) = dfs p (leaves_of prune p) (traversed prune t).
Proof.
  intros Hnd Hin. rewrite walkabout_spec. cbn [fst]. apply block_trace_projection; assumption.
Qed.

Theorem walkabout_enter_order exts prune t :
  filter is_enter (fst (walkabout exts prune t))
  = flat_map (entry_block exts) (preorder (traversed prune t)).
Proof. rewrite walkabout_spec. cbn [fst]. apply block_trace_enters. Qed.

Theorem walkabout_leave_order exts prune t :
  filter is_leave (fst (walkabout exts prune t))
  = flat_map (exit_block exts prune) (postorder (traversed prune t)).
Proof. rewrite walkabout_spec. cbn [fst]. apply block_trace_leaves. Qed.

Theorem walkabout_escape exts prune t :
  snd (walkabout exts prune t) = skips_siblings prune (root t).
Proof. rewrite walkabout_spec. reflexivity. Qed.

Theorem walk_projection exts prune t p :
  NoDup (main_id :: map ext_id exts) -> In p (main_id :: map ext_id exts) ->
  filter (who_is p) (fst (walk exts prune t)) = map (fun n => Ev p Enter n) (preorder (traversed_walk prune t)).
Proof.
  intros Hnd Hin. rewrite walk_spec. cbn [fst]. apply enter_trace_projection; assumption.
Qed.

Theorem walk_enter_order exts prune t :
  fst (walk exts prune t) = flat_map (entry_block exts) (preorder (traversed_walk prune t)).
Proof. rewrite walk_spec. cbn [fst]. apply enter_trace_all_enters. Qed.

(* ---- builder scope stack ---- *)
From PydoctorVerif Require Import Model.BuilderStack.

Lemma stack_run_app pushes pops a b st :
  stack_run pushes pops (a ++ b) st =
  match stack_run pushes pops a st with Some st' => stack_run pushes pops b st' | None => None end.
Proof.
  revert st. induction a as [|e a IH]; intros st; [reflexivity|].
  cbn [app stack_run]. destruct (edir e).
  - apply IH.
  - destruct (pops (enode e)); [|apply IH].
    destruct st as [|top st']; [reflexivity|]. destruct (N.eqb top (enode e)); [apply IH|reflexivity].
Qed.

Lemma stack_run_dfs (isdef leaves pushes pops : N -> bool) p t st :
  (forall n, pushes n = isdef n && leaves n) -> (forall n, pops n = isdef n) ->
  stack_run pushes pops (dfs p leaves t) st = Some st.
Proof.
  intros Hpush Hpop. revert st. induction t as [n kids IH] using tree_ind'. intros st.
  cbn [dfs]. rewrite stack_run_app. cbn [stack_run edir enode].
  rewrite stack_run_app.
  assert (HK : forall st', stack_run pushes pops (flat_map (dfs p leaves) kids) st' = Some st').
  { clear -IH. induction kids as [|k ks IHk]; intros st'; [reflexivity|].
    inversion IH as [|? ? Hk Hks]; subst. cbn [flat_map]. rewrite stack_run_app, Hk. apply IHk. exact Hks. }
  rewrite HK. rewrite Hpush.
  destruct (leaves n) eqn:El; cbn [stack_run edir enode].
  - rewrite Hpop. destruct (isdef n); cbn [andb]; [rewrite N.eqb_refl|]; reflexivity.
  - rewrite andb_false_r. reflexivity.
Qed.

Theorem builder_stack_restored exts prune t (isdef pushes pops : N -> bool) st :
  NoDup (main_id :: map ext_id exts) ->
  (forall n, pushes n = isdef n && main_departs prune n) -> (forall n, pops n = isdef n) ->
  stack_run pushes pops (filter (who_is main_id) (fst (walkabout exts prune t))) st = Some st.
Proof.
  intros Hnd Hpush Hpop. rewrite walkabout_projection by (try exact Hnd; left; reflexivity).
  unfold leaves_of. rewrite N.eqb_refl. apply stack_run_dfs with (isdef := isdef); assumption.
Qed.
