(* Proofs/BarrierProofs.v -- big-step semantics of exception skeletons (Python try/except/else/finally,
   nondeterministic risky calls bounded by the oracle contract) and soundness of the escape analysis:
   whatever class escapes a block is below one of the bounds `esc` computes.  Hence `total b = true`
   means: for every behaviour of the risky calls within their contract, the block cannot raise. *)
From Coq Require Import NArith List Bool Lia.
From PydoctorVerif Require Import Model.Barrier.
Import ListNotations.

Section Sound.
  Variable anc : list (N * list N).
  Variable alw : list (N * list N).

  Notation subclass := (subclass anc).
  Notation allowed := (allowed alw).
  Notation esc := (esc anc alw).
  Notation caught := (caught anc).

  Definition matches (c : N) (h : list N * list sk) : bool := existsb (subclass c) (fst h).

  Fixpoint first_match (c : N) (hs : list (list N * list sk)) : option (list N * list sk) :=
    match hs with
    | [] => None
    | h :: hs' => if matches c h then Some h else first_match c hs'
    end.

  Definition combine_fin (r rf : option N) : option N := match rf with Some c => Some c | None => r end.

  (* cur = exception being handled; result None = completed normally, Some c = raised class c *)
  Inductive ev_stmt : option N -> sk -> option N -> Prop :=
  | E_call_ok cur id : ev_stmt cur (SCall id) None
  | E_call_raise cur id c a : In a (allowed id) -> subclass c a = true -> ev_stmt cur (SCall id) (Some c)
  | E_raise cur c : ev_stmt cur (SRaise c) (Some c)
  | E_reraise c : ev_stmt (Some c) SReraise (Some c)
  | E_branch cur blks b r : In b blks -> ev_block cur b r -> ev_stmt cur (SBranch blks) r
  | E_try_ok cur body hs orelse fin r rf :
      ev_block cur body None -> ev_block cur orelse r -> ev_block cur fin rf ->
      ev_stmt cur (STry body hs orelse fin) (combine_fin r rf)
  | E_try_caught cur body hs orelse fin c h r rf :
      ev_block cur body (Some c) -> first_match c hs = Some h -> ev_block (Some c) (snd h) r ->
      ev_block cur fin rf ->
      ev_stmt cur (STry body hs orelse fin) (combine_fin r rf)
  | E_try_uncaught cur body hs orelse fin c rf :
      ev_block cur body (Some c) -> first_match c hs = None -> ev_block cur fin rf ->
      ev_stmt cur (STry body hs orelse fin) (combine_fin (Some c) rf)
  with ev_block : option N -> list sk -> option N -> Prop :=
  | B_nil cur : ev_block cur [] None
  | B_ok cur s b r : ev_stmt cur s None -> ev_block cur b r -> ev_block cur (s :: b) r
  | B_raise cur s b c : ev_stmt cur s (Some c) -> ev_block cur (s :: b) (Some c).

  Scheme ev_stmt_mut := Minimality for ev_stmt Sort Prop
    with ev_block_mut := Minimality for ev_block Sort Prop.
  Combined Scheme ev_mutind from ev_stmt_mut, ev_block_mut.

  Definition bounded (c : N) (l : list N) : Prop := exists b, In b l /\ subclass c b = true.

  Lemma bounded_app_l c l1 l2 : bounded c l1 -> bounded c (l1 ++ l2).
  Proof. intros (b & Hb & Hs). exists b. split; [apply in_or_app; left; exact Hb|exact Hs]. Qed.
  Lemma bounded_app_r c l1 l2 : bounded c l2 -> bounded c (l1 ++ l2).
  Proof. intros (b & Hb & Hs). exists b. split; [apply in_or_app; right; exact Hb|exact Hs]. Qed.

  Lemma subclass_refl c : subclass c c = true.
  Proof. unfold Barrier.subclass. rewrite N.eqb_refl. reflexivity. Qed.

  Hypothesis subclass_trans : forall a b c, subclass a b = true -> subclass b c = true -> subclass a c = true.

  Lemma first_match_none c hs : first_match c hs = None -> forall h, In h hs -> matches c h = false.
  Proof.
    induction hs as [|h0 hs IH]; cbn [first_match]; intros Hn h Hin; [destruct Hin|].
    destruct (matches c h0) eqn:Em; [discriminate|].
    destruct Hin as [<-|Hin]; [exact Em|apply IH; assumption].
  Qed.

  Lemma first_match_some c hs h : first_match c hs = Some h -> In h hs.
  Proof.
    induction hs as [|h0 hs IH]; cbn [first_match]; [discriminate|].
    destruct (matches c h0); [intros [= <-]; left; reflexivity|intros H; right; apply IH; exact H].
  Qed.

  Lemma uncaught_bound c b hs :
    subclass c b = true -> first_match c hs = None -> caught b hs = false.
  Proof.
    intros Hcb Hn. unfold Barrier.caught.
    destruct (existsb (fun h => existsb (subclass b) (fst h)) hs) eqn:E; [|reflexivity].
    apply existsb_exists in E. destruct E as (h & Hin & Hh).
    apply existsb_exists in Hh. destruct Hh as (k & Hk & Hbk).
    pose proof (first_match_none c hs Hn h Hin) as Hm. unfold matches in Hm.
    assert (Ht : existsb (subclass c) (fst h) = true).
    { apply existsb_exists. exists k. split; [exact Hk|]. eapply subclass_trans; eassumption. }
    congruence.
  Qed.

  Lemma esc_try curs body hs orelse fin :
    esc curs (STry body hs orelse fin) =
    filter (fun b => negb (caught b hs)) (flat_map (esc curs) body)
    ++ flat_map (fun h => flat_map (esc (flat_map (esc curs) body)) (snd h)) hs
    ++ flat_map (esc curs) orelse ++ flat_map (esc curs) fin.
  Proof. reflexivity. Qed.

  Lemma bounded_flat_map {X} c (f : X -> list N) x l : In x l -> bounded c (f x) -> bounded c (flat_map f l).
  Proof.
    intros Hin (b & Hb & Hs). exists b. split; [|exact Hs].
    apply in_flat_map. exists x. split; assumption.
  Qed.

  Definition cur_ok (cur : option N) (curs : list N) : Prop :=
    forall c0, cur = Some c0 -> bounded c0 curs.

  Theorem esc_sound :
    (forall cur s r, ev_stmt cur s r ->
       forall curs c, cur_ok cur curs -> r = Some c -> bounded c (esc curs s)) /\
    (forall cur b r, ev_block cur b r ->
       forall curs c, cur_ok cur curs -> r = Some c -> bounded c (flat_map (esc curs) b)).
  Proof.
    apply ev_mutind.
    - (* call ok *) intros; discriminate.
    - (* call raise *) intros cur id c a Hin Hs curs c' _ [= <-]. exists a. split; [exact Hin|exact Hs].
    - (* raise *) intros cur c curs c' _ [= <-]. exists c. split; [left; reflexivity|apply subclass_refl].
    - (* reraise *) intros c curs c' Hc [= <-]. apply Hc. reflexivity.
    - (* branch *) intros cur blks b r Hin _ IH curs c Hc ->. cbn [Barrier.esc].
      eapply bounded_flat_map; [exact Hin|]. apply IH; [exact Hc|reflexivity].
    - (* try, body ok *)
      intros cur body hs orelse fin r rf _ _ _ IHo _ IHf curs c Hc Hr. rewrite esc_try.
      apply bounded_app_r, bounded_app_r.
      destruct rf as [cf|]; cbn [combine_fin] in Hr.
      + injection Hr as <-. apply bounded_app_r. apply IHf; [exact Hc|reflexivity].
      + apply bounded_app_l. apply IHo; [exact Hc|exact Hr].
    - (* try, caught *)
      intros cur body hs orelse fin c h r rf _ IHb Hfm _ IHh _ IHf curs c' Hc Hr. rewrite esc_try.
      destruct rf as [cf|]; cbn [combine_fin] in Hr.
      + injection Hr as <-. apply bounded_app_r, bounded_app_r, bounded_app_r. apply IHf; [exact Hc|reflexivity].
      + apply bounded_app_r, bounded_app_l.
        eapply bounded_flat_map; [apply (first_match_some _ _ _ Hfm)|].
        apply IHh; [|exact Hr].
        intros c0 [= <-]. apply IHb; [exact Hc|reflexivity].
    - (* try, uncaught *)
      intros cur body hs orelse fin c rf _ IHb Hfm _ IHf curs c' Hc Hr. rewrite esc_try.
      destruct rf as [cf|]; cbn [combine_fin] in Hr.
      + injection Hr as <-. apply bounded_app_r, bounded_app_r, bounded_app_r. apply IHf; [exact Hc|reflexivity].
      + injection Hr as <-. apply bounded_app_l.
        destruct (IHb curs c Hc eq_refl) as (b & Hb & Hs).
        exists b. split; [|exact Hs]. apply filter_In. split; [exact Hb|].
        rewrite (uncaught_bound c b hs Hs Hfm). reflexivity.
    - (* nil *) intros; discriminate.
    - (* block ok *) intros cur s b r _ _ _ IHb curs c Hc Hr. cbn [flat_map]. apply bounded_app_r. apply IHb; assumption.
    - (* block raise *) intros cur s b c _ IHs curs c' Hc [= <-]. cbn [flat_map]. apply bounded_app_l.
      apply IHs; [exact Hc|reflexivity].
  Qed.

  Corollary total_sound b r :
    total anc alw b = true -> ev_block None b r -> r = None.
  Proof.
    unfold total, esc_block. intros Ht Hev. destruct r as [c|]; [|reflexivity]. exfalso.
    destruct (proj2 esc_sound None b (Some c) Hev [] c ltac:(intros c0; discriminate) eq_refl) as (x & Hx & _).
    destruct (flat_map (esc []) b); [destruct Hx|discriminate].
  Qed.
End Sound.

(* transitivity of `subclass` from the table checks *)
Section Table.
  Variable anc : list (N * list N).

  Lemma memN_In x l : memN x l = true <-> In x l.
  Proof.
    induction l as [|y l IH]; cbn [memN In]; [split; [discriminate|tauto]|].
    rewrite orb_true_iff, N.eqb_eq, IH. tauto.
  Qed.

  Lemma assoc_In k v : assoc k anc = v -> v <> [] -> In (k, v) anc.
  Proof.
    induction anc as [|[k' v'] t IH]; cbn [assoc]; intros H Hne; [congruence|].
    destruct (N.eqb_spec k' k) as [->|Hk]; [left; congruence|right; apply IH; assumption].
  Qed.

  Lemma closed_trans :
    closed_table anc = true ->
    forall a b c, subclass anc a b = true -> subclass anc b c = true -> subclass anc a c = true.
  Proof.
    intros Hcl a b c Hab Hbc. unfold subclass in *.
    apply orb_true_iff in Hab. apply orb_true_iff in Hbc. apply orb_true_iff.
    destruct Hab as [Hab|Hab]; [apply N.eqb_eq in Hab; subst; destruct Hbc; auto|].
    destruct Hbc as [Hbc|Hbc]; [apply N.eqb_eq in Hbc; subst; auto|].
    apply memN_In in Hab. apply memN_In in Hbc.
    assert (Hrow : In (a, assoc a anc) anc).
    { apply assoc_In; [reflexivity|]. intros E. rewrite E in Hab. destruct Hab. }
    unfold closed_table in Hcl. rewrite forallb_forall in Hcl.
    specialize (Hcl _ Hrow). cbn [fst snd] in Hcl. rewrite forallb_forall in Hcl.
    specialize (Hcl _ Hab). rewrite forallb_forall in Hcl. specialize (Hcl _ Hbc).
    apply orb_true_iff in Hcl. destruct Hcl as [H|H]; [left; rewrite N.eqb_sym; exact H|right; exact H].
  Qed.
End Table.
