(* Proofs/ProcProofs.v -- the work-list machine terminates, never trips an assert, drains the list,
   and the final state of every module is a function of that module's own parse flag. *)
From Coq Require Import ZArith NArith List Bool Lia.
From PydoctorVerif Require Import Base.Sexp Model.Proc.
Import ListNotations.

Lemma mem_In m l : mem m l = true <-> In m l.
Proof.
  induction l as [|x l IH]; cbn [mem In].
  - split; [discriminate|tauto].
  - rewrite orb_true_iff, N.eqb_eq, IH. tauto.
Qed.

Lemma remove1_In_iff m l x : NoDup l -> (In x (remove1 m l) <-> In x l /\ x <> m).
Proof.
  induction l as [|y l IH]; intros Hnd; cbn [remove1 In]; [tauto|].
  inversion Hnd as [|? ? Hny Hnd']; subst.
  destruct (N.eqb_spec y m) as [->|Hne].
  - split.
    + intros Hx. split; [right; exact Hx|]. intros ->. contradiction.
    + intros [[->|Hx] Hxm]; [congruence|exact Hx].
  - cbn [In]. rewrite IH by assumption. split.
    + intros [->|[Hx Hxm]]; [split; [left; reflexivity|congruence]|split; [right; assumption|assumption]].
    + intros [[->|Hx] Hxm]; [left; reflexivity|right; split; assumption].
Qed.

Lemma remove1_NoDup m l : NoDup l -> NoDup (remove1 m l).
Proof.
  induction l as [|y l IH]; intros Hnd; cbn [remove1]; [constructor|].
  inversion Hnd as [|? ? Hny Hnd']; subst. destruct (N.eqb y m); [assumption|].
  constructor; [|apply IH; assumption].
  intros Hin. apply remove1_In_iff in Hin; [|assumption]. tauto.
Qed.

Lemma remove1_length m l : In m l -> S (length (remove1 m l)) = length l.
Proof.
  induction l as [|y l IH]; cbn [remove1 In length]; [tauto|].
  intros [->|Hin].
  - rewrite N.eqb_refl. reflexivity.
  - destruct (N.eqb y m); [reflexivity|]. cbn [length]. rewrite IH by assumption. reflexivity.
Qed.

Lemma upd_same f k v : upd f k v k = v.
Proof. unfold upd. rewrite N.eqb_refl. reflexivity. Qed.
Lemma upd_other f k v x : x <> k -> upd f k v x = f x.
Proof. unfold upd. intros H. apply N.eqb_neq in H. rewrite H. reflexivity. Qed.

Lemma pev_eq_dec (a b : pev) : {a = b} + {a <> b}.
Proof. decide equality; apply N.eq_dec. Defined.

Definition ev_count (e : pev) (tr : list pev) : nat := count_occ pev_eq_dec tr e.
Definition pev_mod (e : pev) : N := match e with PEnter m | PLeave m | PReport m => m end.

(* how often module m was entered, left, reported *)
Definition counts (m : N) (tr : list pev) : nat * nat * nat :=
  (ev_count (PEnter m) tr, ev_count (PLeave m) tr, ev_count (PReport m) tr).

Definition exp_counts (x : pstate) (ok : bool) : nat * nat * nat :=
  match x with
  | UNPROCESSED => (0, 0, 0)
  | PROCESSING => if ok then (1, 0, 0) else (0, 0, 1)
  | PROCESSED => (1, 1, 0)
  end.

Lemma ev_count_cons e e' tr : ev_count e (e' :: tr) = (if pev_eq_dec e' e then 1 else 0) + ev_count e tr.
Proof. unfold ev_count. cbn [count_occ]. destruct (pev_eq_dec e' e); reflexivity. Qed.

Lemma counts_other x e tr : pev_mod e <> x -> counts x (e :: tr) = counts x tr.
Proof.
  intros H. unfold counts. rewrite !ev_count_cons.
  destruct (pev_eq_dec e (PEnter x)) as [->|_]; [cbn in H; congruence|].
  destruct (pev_eq_dec e (PLeave x)) as [->|_]; [cbn in H; congruence|].
  destruct (pev_eq_dec e (PReport x)) as [->|_]; [cbn in H; congruence|]. reflexivity.
Qed.

Lemma counts_same m e tr a b c :
  pev_mod e = m -> counts m tr = (a, b, c) ->
  counts m (e :: tr) = match e with PEnter _ => (S a, b, c) | PLeave _ => (a, S b, c) | PReport _ => (a, b, S c) end.
Proof.
  intros Hm Hc. unfold counts in *. rewrite !ev_count_cons. injection Hc as <- <- <-.
  destruct e as [k|k|k]; cbn in Hm; subst k;
    repeat match goal with |- context [pev_eq_dec ?u ?v] => destruct (pev_eq_dec u v); try congruence end; reflexivity.
Qed.

Section WithProject.
  Variable p : project.

  Definition known (m : N) : Prop := lookup p m <> None.

  Record Inv (s : state) : Prop := {
    inv_nodup : NoDup (unproc s);
    inv_unproc : forall m, In m (unproc s) <-> (known m /\ st s m = UNPROCESSED);
    inv_done : forall m i, lookup p m = Some i -> st s m = PROCESSED -> parse_ok i = true;
    inv_ing : forall m i, lookup p m = Some i -> st s m = PROCESSING ->
                          (parse_ok i = false /\ In m (reports s)) \/ In m (stack s);
    inv_rep_nodup : NoDup (reports s);
    inv_rep : forall m, In m (reports s) ->
                        exists i, lookup p m = Some i /\ parse_ok i = false /\ st s m = PROCESSING;
    inv_trace : forall m i, lookup p m = Some i -> counts m (trace s) = exp_counts (st s m) (parse_ok i)
  }.

  Lemma trace_step (st0 : N -> pstate) tr m e new :
    (forall x i, lookup p x = Some i -> counts x tr = exp_counts (st0 x) (parse_ok i)) ->
    pev_mod e = m ->
    (forall i, lookup p m = Some i -> counts m (e :: tr) = exp_counts new (parse_ok i)) ->
    forall x i, lookup p x = Some i -> counts x (e :: tr) = exp_counts (upd st0 m new x) (parse_ok i).
  Proof.
    intros H0 He Hm x i Hl. destruct (N.eq_dec x m) as [->|Hxm].
    - rewrite upd_same. apply Hm. exact Hl.
    - rewrite upd_other by exact Hxm. rewrite counts_other by congruence. apply H0. exact Hl.
  Qed.

  Definition Frame (s s' : state) : Prop :=
    stack s' = stack s /\
    (forall x, st s x <> UNPROCESSED -> st s' x = st s x) /\
    (forall x, In x (reports s) -> In x (reports s')).

  Definition Post (s s' : state) (m : N) : Prop :=
    Inv s' /\ Frame s s' /\ length (unproc s') < length (unproc s) /\ st s' m <> UNPROCESSED.

  Definition WPost (s s' : state) : Prop :=
    Inv s' /\ Frame s s' /\ length (unproc s') <= length (unproc s).

  Lemma Frame_refl s : Frame s s.
  Proof. repeat split; auto. Qed.

  Lemma Frame_trans s1 s2 s3 : Frame s1 s2 -> Frame s2 s3 -> Frame s1 s3.
  Proof.
    intros (Ha & Hb & Hc) (Ha' & Hb' & Hc'). repeat split.
    - congruence.
    - intros x Hx. rewrite Hb' by (rewrite Hb by exact Hx; exact Hx). apply Hb. exact Hx.
    - intros x Hx. apply Hc', Hc, Hx.
  Qed.

  (* the import walk, named (same term as the local fix inside process_module) *)
  Definition walk (f : nat) : list N -> state -> outcome :=
    fix walk (ts : list N) (s : state) : outcome :=
      match ts with
      | [] => Ok s
      | t :: ts' =>
        let r :=
          match lookup p t with
          | None => Ok s
          | Some _ =>
            match st s t with
            | UNPROCESSED => process_module p f s t
            | _ => Ok s
            end
          end in
        match r with
        | Ok s' =>
          match lookup p t with
          | Some _ => if pstate_eqb (st s' t) UNPROCESSED then AssertFail 4 else walk ts' s'
          | None => walk ts' s'
          end
        | bad => bad
        end
      end.

  Lemma pstate_eqb_neq a : a <> UNPROCESSED -> pstate_eqb a UNPROCESSED = false.
  Proof. destruct a; [congruence| |]; reflexivity. Qed.

  Lemma walk_ok f :
    (forall s m, Inv s -> known m -> st s m = UNPROCESSED -> length (unproc s) < f ->
                 exists s', process_module p f s m = Ok s' /\ Post s s' m) ->
    forall ts s, Inv s -> length (unproc s) < f ->
                 exists s', walk f ts s = Ok s' /\ WPost s s'.
  Proof.
    intros IHf. induction ts as [|t ts IH]; intros s HI Hlen.
    - exists s. split; [reflexivity|]. split; [exact HI|]. split; [apply Frame_refl|lia].
    - cbn [walk]. destruct (lookup p t) as [ti|] eqn:Elt.
      + destruct (st s t) eqn:Est.
        * assert (Hk : known t) by (unfold known; congruence).
          destruct (IHf s t HI Hk Est Hlen) as (s1 & -> & HI1 & HF1 & Hl1 & Hne1).
          rewrite (pstate_eqb_neq _ Hne1).
          destruct (IH s1 HI1 ltac:(lia)) as (s2 & -> & HI2 & HF2 & Hl2).
          exists s2. split; [reflexivity|]. split; [exact HI2|]. split; [eapply Frame_trans; eassumption|lia].
        * cbn [pstate_eqb]. rewrite Est. cbn [pstate_eqb].
          destruct (IH s HI Hlen) as (s2 & -> & HW). exists s2. split; [reflexivity|exact HW].
        * cbn [pstate_eqb]. rewrite Est. cbn [pstate_eqb].
          destruct (IH s HI Hlen) as (s2 & -> & HW). exists s2. split; [reflexivity|exact HW].
      + destruct (IH s HI Hlen) as (s2 & -> & HW). exists s2. split; [reflexivity|exact HW].
  Qed.

  Lemma process_module_unfold f s m :
    process_module p (S f) s m =
    if negb (pstate_eqb (st s m) UNPROCESSED) then AssertFail 1
    else if negb (mem m (unproc s)) then AssertFail 2
    else
      let s1 := {| st := upd (st s) m PROCESSING; unproc := remove1 m (unproc s);
                   stack := stack s; reports := reports s; trace := trace s |} in
      match lookup p m with
      | None => AssertFail 2
      | Some info =>
        if parse_ok info then
          let s2 := {| st := st s1; unproc := unproc s1; stack := m :: stack s1;
                       reports := reports s1; trace := PEnter m :: trace s1 |} in
          match walk f (imports info) s2 with
          | Ok s3 =>
            match stack s3 with
            | h :: rest =>
              if N.eqb h m then
                Ok {| st := upd (st s3) m PROCESSED; unproc := unproc s3; stack := rest;
                      reports := reports s3; trace := PLeave m :: trace s3 |}
              else AssertFail 3
            | [] => AssertFail 3
            end
          | bad => bad
          end
        else
          Ok {| st := st s1; unproc := unproc s1; stack := stack s1;
                reports := m :: reports s1; trace := PReport m :: trace s1 |}
      end.
  Proof. reflexivity. Qed.

  Lemma process_module_ok :
    forall fuel s m, Inv s -> known m -> st s m = UNPROCESSED -> length (unproc s) < fuel ->
                     exists s', process_module p fuel s m = Ok s' /\ Post s s' m.
  Proof.
    induction fuel as [|f IHf]; intros s m HI Hk Hst Hlen; [lia|].
    rewrite process_module_unfold. rewrite Hst. cbn [pstate_eqb negb].
    assert (Hin : In m (unproc s)) by (apply (inv_unproc s HI); split; assumption).
    assert (Hmem : mem m (unproc s) = true) by (apply mem_In; exact Hin).
    rewrite Hmem. cbn [negb].
    destruct (lookup p m) as [info|] eqn:Elm; [|exfalso; apply Hk; exact Elm].
    cbv zeta. cbn [st unproc stack reports trace].
    pose proof (remove1_length m (unproc s) Hin) as Hrl.
    (* facts about s1 shared by both branches *)
    assert (Hun1 : forall x, In x (remove1 m (unproc s)) <->
                             (known x /\ upd (st s) m PROCESSING x = UNPROCESSED)).
    { intros x. rewrite remove1_In_iff by (apply (inv_nodup s HI)). rewrite (inv_unproc s HI).
      destruct (N.eq_dec x m) as [->|Hxm].
      - rewrite upd_same. split; [tauto|]. intros [_ H]. discriminate.
      - rewrite upd_other by exact Hxm. tauto. }
    assert (Hnotrep : ~ In m (reports s)).
    { intros Hr. destruct (inv_rep s HI m Hr) as (i & _ & _ & Hp). congruence. }
    destruct (parse_ok info) eqn:Epo.
    - (* parsed: walk the imports *)
      set (s2 := {| st := upd (st s) m PROCESSING; unproc := remove1 m (unproc s); stack := m :: stack s;
                    reports := reports s; trace := PEnter m :: trace s |}).
      assert (HI2 : Inv s2).
      { constructor; cbn [st unproc stack reports trace s2].
        - apply remove1_NoDup, (inv_nodup s HI).
        - exact Hun1.
        - intros x i Hl Hx. destruct (N.eq_dec x m) as [->|Hxm].
          + rewrite upd_same in Hx. discriminate.
          + rewrite upd_other in Hx by exact Hxm. eapply (inv_done s HI); eassumption.
        - intros x i Hl Hx. destruct (N.eq_dec x m) as [->|Hxm].
          + right. left. reflexivity.
          + rewrite upd_other in Hx by exact Hxm.
            destruct (inv_ing s HI x i Hl Hx) as [Hl'|Hr]; [left; exact Hl'|right; right; exact Hr].
        - apply (inv_rep_nodup s HI).
        - intros x Hx. destruct (inv_rep s HI x Hx) as (i & Hl & Hp & Hs). exists i.
          split; [exact Hl|]. split; [exact Hp|].
          rewrite upd_other; [exact Hs|]. intros ->. congruence.
        - apply trace_step; [apply (inv_trace s HI)|reflexivity|].
          intros i Hl. rewrite Elm in Hl. injection Hl as <-. rewrite Epo.
          pose proof (inv_trace s HI m info Elm) as Hc. rewrite Hst in Hc. cbn [exp_counts] in Hc.
          rewrite (counts_same m (PEnter m) (trace s) 0 0 0 eq_refl Hc). reflexivity. }
      assert (Hlen2 : length (unproc s2) < f) by (cbn [unproc s2]; lia).
      destruct (walk_ok f IHf (imports info) s2 HI2 Hlen2) as (s3 & -> & HI3 & (Hstk & Hfr & Hrp) & Hl3).
      cbn [stack s2] in Hstk. rewrite Hstk. rewrite N.eqb_refl.
      assert (Hm3 : st s3 m = PROCESSING).
      { rewrite Hfr; cbn [st s2]; rewrite upd_same; [reflexivity|discriminate]. }
      eexists. split; [reflexivity|].
      split; [|split; [|split]].
      + constructor; cbn [st unproc stack reports trace].
        * apply (inv_nodup s3 HI3).
        * intros x. rewrite (inv_unproc s3 HI3). destruct (N.eq_dec x m) as [->|Hxm].
          -- rewrite upd_same, Hm3. split; intros [_ H]; discriminate.
          -- rewrite upd_other by exact Hxm. tauto.
        * intros x i Hl Hx. destruct (N.eq_dec x m) as [->|Hxm].
          -- rewrite Elm in Hl. injection Hl as <-. exact Epo.
          -- rewrite upd_other in Hx by exact Hxm. eapply (inv_done s3 HI3); eassumption.
        * intros x i Hl Hx. destruct (N.eq_dec x m) as [->|Hxm].
          -- rewrite upd_same in Hx. discriminate.
          -- rewrite upd_other in Hx by exact Hxm.
             destruct (inv_ing s3 HI3 x i Hl Hx) as [Hl'|Hr]; [left; exact Hl'|].
             rewrite Hstk in Hr. destruct Hr as [Hr|Hr]; [congruence|right; exact Hr].
        * apply (inv_rep_nodup s3 HI3).
        * intros x Hx. destruct (inv_rep s3 HI3 x Hx) as (i & Hl & Hp & Hs). exists i.
          split; [exact Hl|]. split; [exact Hp|].
          rewrite upd_other; [exact Hs|]. intros ->. rewrite Elm in Hl. injection Hl as <-. congruence.
        * apply trace_step; [apply (inv_trace s3 HI3)|reflexivity|].
          intros i Hl. rewrite Elm in Hl. injection Hl as <-.
          pose proof (inv_trace s3 HI3 m info Elm) as Hc. rewrite Hm3, Epo in Hc. cbn [exp_counts] in Hc.
          rewrite (counts_same m (PLeave m) (trace s3) 1 0 0 eq_refl Hc). reflexivity.
      + repeat split; cbn [st stack reports].
        * intros x Hx. assert (Hxm : x <> m) by (intros ->; contradiction).
          rewrite upd_other by exact Hxm. rewrite Hfr; cbn [st s2]; rewrite upd_other by exact Hxm; [reflexivity|exact Hx].
        * intros x Hx. apply Hrp. exact Hx.
      + cbn [unproc]. cbn [unproc s2] in Hl3. lia.
      + cbn [st]. rewrite upd_same. discriminate.
    - (* parse failed: reported, state stays PROCESSING *)
      eexists. split; [reflexivity|].
      split; [|split; [|split]].
      + constructor; cbn [st unproc stack reports trace].
        * apply remove1_NoDup, (inv_nodup s HI).
        * exact Hun1.
        * intros x i Hl Hx. destruct (N.eq_dec x m) as [->|Hxm].
          -- rewrite upd_same in Hx. discriminate.
          -- rewrite upd_other in Hx by exact Hxm. eapply (inv_done s HI); eassumption.
        * intros x i Hl Hx. destruct (N.eq_dec x m) as [->|Hxm].
          -- left. rewrite Elm in Hl. injection Hl as <-. split; [exact Epo|left; reflexivity].
          -- rewrite upd_other in Hx by exact Hxm.
             destruct (inv_ing s HI x i Hl Hx) as [[Ha Hb]|Hr]; [left; split; [exact Ha|right; exact Hb]|right; exact Hr].
        * constructor; [exact Hnotrep|apply (inv_rep_nodup s HI)].
        * intros x [<-|Hx].
          -- exists info. split; [exact Elm|]. split; [exact Epo|apply upd_same].
          -- destruct (inv_rep s HI x Hx) as (i & Hl & Hp & Hs). exists i.
             split; [exact Hl|]. split; [exact Hp|].
             rewrite upd_other; [exact Hs|]. intros ->. congruence.
        * apply trace_step; [apply (inv_trace s HI)|reflexivity|].
          intros i Hl. rewrite Elm in Hl. injection Hl as <-. rewrite Epo.
          pose proof (inv_trace s HI m info Elm) as Hc. rewrite Hst in Hc. cbn [exp_counts] in Hc.
          rewrite (counts_same m (PReport m) (trace s) 0 0 0 eq_refl Hc). reflexivity.
      + repeat split; cbn [st stack reports].
        * intros x Hx. rewrite upd_other; [reflexivity|]. intros ->. contradiction.
        * intros x Hx. right. exact Hx.
      + cbn [unproc]. lia.
      + cbn [st]. rewrite upd_same. discriminate.
  Qed.

  Lemma process_ok :
    forall rounds fuel s, Inv s -> stack s = [] -> length (unproc s) < fuel -> length (unproc s) <= rounds ->
      exists s', process p rounds fuel s = Ok s' /\ Inv s' /\ unproc s' = [] /\ stack s' = [].
  Proof.
    induction rounds as [|r IH]; intros fuel s HI Hstk Hf Hr.
    - destruct (unproc s) eqn:Eu; [|cbn [length] in Hr; lia].
      exists s. cbn [process]. rewrite Eu. auto.
    - cbn [process]. destruct (unproc s) as [|m rest] eqn:Eu.
      + exists s. auto.
      + assert (Hin : In m (unproc s)) by (rewrite Eu; left; reflexivity).
        destruct (proj1 (inv_unproc s HI m) Hin) as [Hk Hst].
        destruct (process_module_ok fuel s m HI Hk Hst ltac:(rewrite Eu; exact Hf))
          as (s1 & -> & HI1 & (Hs1 & _ & _) & Hl1 & _).
        rewrite Eu in Hl1. cbn [length] in *.
        apply IH; [exact HI1|congruence|lia|lia].
  Qed.

  Lemma init_Inv order :
    NoDup order -> (forall m, In m order <-> known m) -> Inv (init_state order).
  Proof.
    intros Hnd Hor. constructor; cbn [init_state st unproc stack reports trace].
    - exact Hnd.
    - intros m. rewrite Hor. tauto.
    - discriminate.
    - discriminate.
    - constructor.
    - intros m [].
    - intros m i _. reflexivity.
  Qed.

  Definition final_of (i : modinfo) : pstate := if parse_ok i then PROCESSED else PROCESSING.

  Theorem run_project_total order :
    NoDup order -> (forall m, In m order <-> known m) ->
    exists s', run_project p order = Ok s' /\ unproc s' = [] /\ stack s' = [] /\
               NoDup (reports s') /\
               (forall m i, lookup p m = Some i ->
                            st s' m = final_of i /\ (In m (reports s') <-> parse_ok i = false) /\
                            counts m (trace s') = if parse_ok i then (1, 1, 0) else (0, 0, 1)).
  Proof.
    intros Hnd Hor. unfold run_project.
    destruct (process_ok (S (length order)) (S (length order)) (init_state order)
                         (init_Inv order Hnd Hor) eq_refl ltac:(cbn; lia) ltac:(cbn; lia))
      as (s' & Hrun & HI & Hu & Hs).
    exists s'. split; [exact Hrun|]. split; [exact Hu|]. split; [exact Hs|].
    split; [apply (inv_rep_nodup s' HI)|].
    intros m i Hl.
    assert (Hne : st s' m <> UNPROCESSED).
    { intros Hx. assert (Hin : In m (unproc s')).
      { apply (inv_unproc s' HI). split; [unfold known; congruence|exact Hx]. }
      rewrite Hu in Hin. exact Hin. }
    pose proof (inv_trace s' HI m i Hl) as Htr.
    unfold final_of. destruct (st s' m) eqn:Est; [congruence| |].
    - destruct (inv_ing s' HI m i Hl Est) as [[Hp Hr]|Hr]; [|rewrite Hs in Hr; destruct Hr].
      rewrite Hp in *. split; [reflexivity|]. split; [tauto|exact Htr].
    - pose proof (inv_done s' HI m i Hl Est) as Hp. rewrite Hp in *. split; [reflexivity|].
      split; [|exact Htr].
      split; [|discriminate]. intros Hr.
      destruct (inv_rep s' HI m Hr) as (i' & Hl' & Hp' & Hs'). congruence.
  Qed.
End WithProject.

(* isolation: the final state of a module does not depend on the parse flag of any OTHER module *)
Theorem bad_file_isolated (p q : project) order :
  NoDup order ->
  (forall m, In m order <-> known p m) -> (forall m, In m order <-> known q m) ->
  forall m i j, lookup p m = Some i -> lookup q m = Some j -> parse_ok i = parse_ok j ->
    exists s1 s2, run_project p order = Ok s1 /\ run_project q order = Ok s2 /\ st s1 m = st s2 m.
Proof.
  intros Hnd Hp Hq m i j Hi Hj Heq.
  destruct (run_project_total p order Hnd Hp) as (s1 & H1 & _ & _ & _ & F1).
  destruct (run_project_total q order Hnd Hq) as (s2 & H2 & _ & _ & _ & F2).
  exists s1, s2. split; [exact H1|]. split; [exact H2|].
  rewrite (proj1 (F1 m i Hi)), (proj1 (F2 m j Hj)). unfold final_of. rewrite Heq. reflexivity.
Qed.

(* exit status *)
Theorem exit_status_spec d o v w :
  let r := exit_status d o v w in
  (r = 0 \/ r = 2 \/ r = 3)%Z /\
  (r = 3%Z <-> (0 < v)%N /\ w = true) /\
  (r = 2%Z <-> ~ ((0 < v)%N /\ w = true) /\ (0 < d + o)%N) /\
  (r = 0%Z <-> ~ ((0 < v)%N /\ w = true) /\ (d + o = 0)%N).
Proof.
  unfold exit_status.
  destruct (N.ltb_spec 0 d), (N.ltb_spec 0 o), (N.ltb_spec 0 v), w; cbn [andb]; intuition (try lia; try discriminate).
Qed.
