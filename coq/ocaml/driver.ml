(* Generic driver for every extracted model: one s-expression per input line,
   one s-expression per output line.  Model.run : sexp -> sexp is the only entry point.
   Integers on the wire are OCaml 63-bit ints (the harness never sends larger ones). *)
open Model

let rec pos_of_int n =
  if n = 1 then XH
  else if n land 1 = 0 then XO (pos_of_int (n lsr 1))
  else XI (pos_of_int (n lsr 1))

let z_of_int n =
  if n = 0 then Z0 else if n > 0 then Zpos (pos_of_int n) else Zneg (pos_of_int (- n))

let rec int_of_pos = function
  | XH -> 1
  | XO p -> 2 * int_of_pos p
  | XI p -> 2 * int_of_pos p + 1

let int_of_z = function Z0 -> 0 | Zpos p -> int_of_pos p | Zneg p -> - (int_of_pos p)

exception Parse_error of string

let parse (s : string) : sexp =
  let n = String.length s in
  let i = ref 0 in
  let skip () = while !i < n && (s.[!i] = ' ' || s.[!i] = '\t' || s.[!i] = '\r') do incr i done in
  let rec item () : sexp =
    skip ();
    if !i >= n then raise (Parse_error "eof")
    else if s.[!i] = '(' then begin
      incr i;
      let acc = ref [] in
      let fin = ref false in
      while not !fin do
        skip ();
        if !i >= n then raise (Parse_error "unclosed")
        else if s.[!i] = ')' then (incr i; fin := true)
        else acc := item () :: !acc
      done;
      L (List.rev !acc)
    end else begin
      let st = !i in
      if s.[!i] = '-' then incr i;
      while !i < n && s.[!i] >= '0' && s.[!i] <= '9' do incr i done;
      if !i = st then raise (Parse_error ("bad char at " ^ string_of_int st));
      A (z_of_int (int_of_string (String.sub s st (!i - st))))
    end
  in
  let r = item () in
  skip ();
  if !i < n then raise (Parse_error "trailing") else r

let rec print (b : Buffer.t) (x : sexp) : unit =
  match x with
  | A z -> Buffer.add_string b (string_of_int (int_of_z z))
  | L l ->
    Buffer.add_char b '(';
    List.iteri (fun k y -> if k > 0 then Buffer.add_char b ' '; print b y) l;
    Buffer.add_char b ')'

let () =
  let b = Buffer.create 65536 in
  (try
    while true do
      let line = input_line stdin in
      if String.length line > 0 then begin
        Buffer.clear b;
        (try print b (run (parse line))
         with Parse_error m -> (Buffer.clear b; Buffer.add_string b ("!parse " ^ m))
            | Stack_overflow -> (Buffer.clear b; Buffer.add_string b "!stackoverflow"));
        Buffer.add_char b '\n';
        print_string (Buffer.contents b)
      end
    done
  with End_of_file -> ());
  flush stdout
