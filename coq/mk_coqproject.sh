#!/bin/bash
# regenerates _CoqProject from the files present (Extract/*.v are compiled separately, in build dirs)
cd "$(dirname "$0")"
{
  echo "-Q theories PydoctorVerif"
  echo "-arg -w -arg -notation-overridden,-deprecated-hint-without-locality,-deprecated-instance-without-locality"
  find theories -name '*.v' ! -path 'theories/Extract/*' | LC_ALL=C sort
} > _CoqProject.new
if ! cmp -s _CoqProject.new _CoqProject; then mv _CoqProject.new _CoqProject; else rm _CoqProject.new; fi
